//! C09 (model part) — positions are left healthy, and only unhealthy ones can be liquidated. (Auto-deleveraging is a
//! store-level operation and is covered by the chain-level part of C09.)
//!
//! Oracles
//! * `left_liquidatable`: after a successful increase, `check_liquidatable(prices, true, false)` on the resulting
//!   position is `None`; after a successful decrease that leaves the position open, `check_liquidatable(prices, false,
//!   false)` is `None` (the public API, evaluated by the harness on a fork of the post-state, i.e. at a different call
//!   site than the validation inside the action; the flags are those of the action's own final validation).
//! * `immediately_liquidatable`: after the same operations `check_liquidatable(prices, true, true)` — the predicate a
//!   liquidation order at the execution prices would have to pass — is `None`. The key carries the reason and whether
//!   the configuration makes the liquidation thresholds stricter than the normal ones.
//! * `no_collateral_left`: independent big-integer estimate that can only *over*-estimate the remaining collateral
//!   (no fees, no negative impact, uncapped pnl): `collateral·p_collateral.min + uncapped_pnl > 0` with
//!   `uncapped_pnl = tokens·index.min − size` (long) or `size − tokens·index.max` (short). If even this is not
//!   positive the position cannot be healthy. (A *lower* bound being positive, as DESIGN words it, is not implied by
//!   health: a barely healthy position has a lower bound below zero.)
//! * `liquidated_healthy`: a liquidation that succeeded had `check_liquidatable(prices, true, true).is_some()` on a
//!   fork of the pre-state (after the same pre-settlement the transaction performs).
//! * `liquidation_not_full`: a successful liquidation reports `should_remove`, executed the whole size and left the
//!   position empty.

use gmsol_model::PositionExt;
use num_bigint::BigInt;
use num_traits::Signed;
use simcore::Obs;

use crate::refmath::bi;
use crate::world::{PosOps, Report, StepOutcome, World};

/// `discount`: the order-fee discount of the user (the action under test ran with it; the store derives it from the
/// user's referral / GT state, which is the same for a later liquidation check).
fn liquidatable(w: &mut World, idx: usize, min_collateral: bool, for_liquidation: bool, discount: Option<u128>) -> Option<Option<String>> {
    let prices = w.prices;
    let (r, _, _, _) = w.run_tx(0, |w, _| {
        let mut pos = w.positions[idx];
        w.market.order_discount = discount;
        let ops = PosOps { market: &mut w.market, pos: &mut pos, inner: vec![] };
        let r = ops.check_liquidatable(&prices, min_collateral, for_liquidation);
        w.market.order_discount = None;
        r
    });
    r.ok().map(|x| x.map(|reason| format!("{reason:?}")))
}

pub fn after_step(w: &World, out: &StepOutcome, obs: &mut Obs) {
    if !out.ok {
        return;
    }
    let Some(idx) = out.pos else { return };
    match &out.report {
        Report::Increase(_) => check_left(w, out, idx, true, obs),
        Report::Decrease(rep) if out.op == "decrease" => {
            if !rep.should_remove() {
                check_left(w, out, idx, false, obs);
            }
        }
        Report::Decrease(rep) => {
            // successful liquidation
            obs.probe("c09_liquidation_ok");
            let before = out.pos_before.unwrap_or_default();
            let after = out.pos_after.unwrap_or_default();
            obs.require(
                rep.should_remove() && *rep.size_delta_usd() == before.size_in_usd && !after.is_live(),
                "C09",
                "liquidation_not_full",
                || format!("should_remove={}", rep.should_remove()),
                || format!("size before={} executed size delta={} left={:?}", before.size_in_usd, rep.size_delta_usd(), after),
            );
            let mut f = w.fork();
            f.restore(&out.before);
            f.prices = out.prices;
            if w.cfg.settle_before_ops {
                let (r, _, _, _) = f.run_tx(0, |w, sc| w.settle(&mut sc.pre_reports));
                if r.is_err() {
                    return;
                }
            }
            match liquidatable(&mut f, idx, true, true, out.order_discount) {
                Some(reason) => {
                    obs.require(
                        reason.is_some(),
                        "C09",
                        "liquidated_healthy",
                        || format!("insolvent_step={:?}", rep.insolvent_close_step().is_some()),
                        || format!("position {before:?} was not liquidatable at the liquidation thresholds but the liquidation succeeded"),
                    );
                }
                None => obs.probe("c09_pre_state_check_not_computable"),
            }
        }
        _ => {}
    }
}

fn check_left(w: &World, out: &StepOutcome, idx: usize, is_increase: bool, obs: &mut Obs) {
    let p = w.positions[idx];
    if p.size_in_usd == 0 {
        return;
    }
    let op = if is_increase { "increase" } else { "decrease" };
    let mut f = w.fork();
    match liquidatable(&mut f, idx, is_increase, false, out.order_discount) {
        Some(r) => {
            obs.require(
                r.is_none(),
                "C09",
                "left_liquidatable",
                || format!("op={op},reason={}", r.clone().unwrap_or_default()),
                || format!("position {p:?} is liquidatable ({r:?}) right after a successful {op}"),
            );
        }
        None => obs.probe("c09_post_state_check_not_computable"),
    }
    if let Some(r) = liquidatable(&mut f, idx, true, true, out.order_discount) {
        let c = &w.cfg.market.position;
        let stricter = c.min_collateral_factor_for_liquidation.map(|x| x.0 > c.min_collateral_factor.0).unwrap_or(false);
        obs.require(
            r.is_none(),
            "C09",
            "immediately_liquidatable",
            || format!("op={op},reason={},liquidation_factor_above_normal={stricter}", r.clone().unwrap_or_default()),
            || format!("position {p:?} would pass check_liquidation ({r:?}) right after a successful {op}; min_collateral_value={}", c.min_collateral_value.0),
        );
    }
    // optimistic estimate
    let cp = if p.is_collateral_token_long { out.prices.long_token_price } else { out.prices.short_token_price };
    let pnl: BigInt = if p.is_long {
        bi(p.size_in_tokens) * bi(out.prices.index_token_price.min) - bi(p.size_in_usd)
    } else {
        bi(p.size_in_usd) - bi(p.size_in_tokens) * bi(out.prices.index_token_price.max)
    };
    let est = bi(p.collateral_amount) * bi(cp.min) + &pnl;
    obs.require(
        est.is_positive(),
        "C09",
        "no_collateral_left",
        || format!("op={op}"),
        || format!("collateral value + uncapped pnl = {est} for {p:?}"),
    );
}
