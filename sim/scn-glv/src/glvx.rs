//! GLV client: PDAs, instruction builders (management, deposit, withdrawal, shift, pricing views) and
//! account readers. Mirrors `/repo/crates/sdk/src/client/ops/glv.rs` account lists.

use std::collections::BTreeSet;

use solana_program::{
    instruction::{AccountMeta, Instruction},
    pubkey::Pubkey,
    system_program,
};

use chainsim::deploy::{ata, ata_2022, read_pod, store_ix, vault_of, Dep, MarketInfo};
use chainsim::rt::{TxOutcome, World};

use gmsol_store::states::common::action::Action;
use gmsol_store::states::common::swap::HasSwapParams;
use gmsol_store::states::glv::{Glv, GlvDeposit, GlvShift, GlvWithdrawal};

pub const TOKEN_PROGRAM: Pubkey = spl_token::ID;
pub const TOKEN_2022: Pubkey = spl_token_2022::ID;
pub const ATA_PROGRAM: Pubkey = spl_associated_token_account::ID;

pub fn pda(seeds: &[&[u8]]) -> Pubkey {
    Pubkey::find_program_address(seeds, &gmsol_store::ID).0
}

/// Addresses of one GLV.
#[derive(Clone, Copy, Debug, PartialEq, Eq)]
pub struct GlvKeys {
    pub index: u16,
    pub glv_token: Pubkey,
    pub glv: Pubkey,
}

pub fn glv_keys(d: &Dep, index: u16) -> GlvKeys {
    let glv_token = pda(&[b"glv_token", d.store.as_ref(), &index.to_le_bytes()]);
    let glv = pda(&[b"glv", glv_token.as_ref()]);
    GlvKeys { index, glv_token, glv }
}

pub fn glv_of_token(glv_token: &Pubkey) -> Pubkey {
    pda(&[b"glv", glv_token.as_ref()])
}

pub fn glv_deposit_pda(d: &Dep, owner: &Pubkey, nonce: &[u8; 32]) -> Pubkey {
    pda(&[b"glv_deposit", d.store.as_ref(), owner.as_ref(), nonce])
}
pub fn glv_withdrawal_pda(d: &Dep, owner: &Pubkey, nonce: &[u8; 32]) -> Pubkey {
    pda(&[b"glv_withdrawal", d.store.as_ref(), owner.as_ref(), nonce])
}
/// GLV shifts share the seed of plain shifts; the "owner" seed is the keeper that created it.
pub fn glv_shift_pda(d: &Dep, authority: &Pubkey, nonce: &[u8; 32]) -> Pubkey {
    pda(&[b"shift", d.store.as_ref(), authority.as_ref(), nonce])
}

/// The GLV's vault for a market token (an SPL-Token ATA owned by the GLV account).
pub fn glv_vault(glv: &Pubkey, market_token: &Pubkey) -> Pubkey {
    ata(glv, market_token)
}

pub fn create_ata_ix(payer: &Pubkey, owner: &Pubkey, mint: &Pubkey) -> Instruction {
    spl_associated_token_account::instruction::create_associated_token_account_idempotent(payer, owner, mint, &TOKEN_PROGRAM)
}
pub fn create_ata_2022_ix(payer: &Pubkey, owner: &Pubkey, mint: &Pubkey) -> Instruction {
    spl_associated_token_account::instruction::create_associated_token_account_idempotent(payer, owner, mint, &TOKEN_2022)
}

pub fn read_glv(w: &World, glv: &Pubkey) -> Option<Glv> {
    let a = w.get(glv)?;
    if a.owner != gmsol_store::ID {
        return None;
    }
    read_pod(w, glv)
}

pub fn market_by_token<'a>(d: &'a Dep, market_token: &Pubkey) -> Option<&'a MarketInfo> {
    d.markets.iter().find(|m| m.market_token == *market_token)
}

fn feed_of(d: &Dep, token: &Pubkey) -> Pubkey {
    d.tokens.iter().find(|x| x.mint == *token).map(|x| x.price_feed).unwrap_or_default()
}

/// `markets (N)`, `market tokens (N)` of a GLV in the GLV's own order.
pub fn glv_market_metas(d: &Dep, glv: &Glv) -> Vec<AccountMeta> {
    let mts: Vec<Pubkey> = glv.market_tokens().collect();
    let mut v = Vec::with_capacity(mts.len() * 2);
    for mt in &mts {
        let market = market_by_token(d, mt).map(|m| m.market).unwrap_or_else(|| pda(&[b"market", d.store.as_ref(), mt.as_ref()]));
        v.push(AccountMeta::new_readonly(market, false));
    }
    for mt in &mts {
        v.push(AccountMeta::new_readonly(*mt, false));
    }
    v
}

/// Sorted union of `base` tokens and the index tokens of every GLV market.
pub fn glv_feed_tokens(d: &Dep, glv: &Glv, base: &[Pubkey]) -> Vec<Pubkey> {
    let mut t: BTreeSet<Pubkey> = base.iter().copied().collect();
    for mt in glv.market_tokens() {
        if let Some(m) = market_by_token(d, &mt) {
            t.insert(d.tokens[m.index].mint);
        }
    }
    t.into_iter().collect()
}

fn feed_metas(d: &Dep, tokens: &[Pubkey]) -> Vec<AccountMeta> {
    tokens.iter().map(|t| AccountMeta::new_readonly(feed_of(d, t), false)).collect()
}

// ------------------------------------------------------------------ management

pub fn initialize_glv_ix(d: &Dep, k: &GlvKeys, markets: &[usize]) -> Instruction {
    let mut ms: Vec<&MarketInfo> = markets.iter().map(|i| &d.markets[*i]).collect();
    ms.sort_by_key(|m| m.market_token);
    let mut ix = store_ix(
        gmsol_store::accounts::InitializeGlv {
            authority: d.keeper,
            store: d.store,
            glv_token: k.glv_token,
            glv: k.glv,
            system_program: system_program::ID,
            token_program: TOKEN_2022,
            market_token_program: TOKEN_PROGRAM,
            associated_token_program: ATA_PROGRAM,
        },
        gmsol_store::instruction::InitializeGlv { index: k.index, length: ms.len() as u16 },
    );
    for m in &ms {
        ix.accounts.push(AccountMeta::new_readonly(m.market, false));
    }
    for m in &ms {
        ix.accounts.push(AccountMeta::new_readonly(m.market_token, false));
    }
    for m in &ms {
        ix.accounts.push(AccountMeta::new(glv_vault(&k.glv, &m.market_token), false));
    }
    ix
}

pub fn insert_glv_market_ix(d: &Dep, k: &GlvKeys, market: usize, authority: &Pubkey) -> Instruction {
    let m = &d.markets[market];
    store_ix(
        gmsol_store::accounts::InsertGlvMarket {
            authority: *authority,
            store: d.store,
            glv: k.glv,
            market_token: m.market_token,
            market: m.market,
            vault: glv_vault(&k.glv, &m.market_token),
            system_program: system_program::ID,
            token_program: TOKEN_PROGRAM,
            associated_token_program: ATA_PROGRAM,
        },
        gmsol_store::instruction::InsertGlvMarket {},
    )
}

/// Byzantine variant: market token of market `a` paired with the market account of `b`.
pub fn insert_glv_market_mixed_ix(d: &Dep, k: &GlvKeys, token_of: usize, market_of: usize) -> Instruction {
    let a = &d.markets[token_of];
    let b = &d.markets[market_of];
    store_ix(
        gmsol_store::accounts::InsertGlvMarket {
            authority: d.keeper,
            store: d.store,
            glv: k.glv,
            market_token: a.market_token,
            market: b.market,
            vault: glv_vault(&k.glv, &a.market_token),
            system_program: system_program::ID,
            token_program: TOKEN_PROGRAM,
            associated_token_program: ATA_PROGRAM,
        },
        gmsol_store::instruction::InsertGlvMarket {},
    )
}

pub fn remove_glv_market_ix(d: &Dep, k: &GlvKeys, market: usize) -> Instruction {
    let m = &d.markets[market];
    store_ix(
        gmsol_store::accounts::RemoveGlvMarket {
            authority: d.keeper,
            store: d.store,
            store_wallet: d.store_wallet,
            glv: k.glv,
            market_token: m.market_token,
            vault: glv_vault(&k.glv, &m.market_token),
            store_wallet_ata: ata(&d.store_wallet, &m.market_token),
            token_program: TOKEN_PROGRAM,
            associated_token_program: ATA_PROGRAM,
            system_program: system_program::ID,
        },
        gmsol_store::instruction::RemoveGlvMarket {},
    )
}

pub fn update_glv_market_config_ix(d: &Dep, k: &GlvKeys, market: usize, max_amount: Option<u64>, max_value: Option<u128>) -> Instruction {
    let m = &d.markets[market];
    store_ix(
        gmsol_store::accounts::UpdateGlvMarketConfig { authority: d.keeper, store: d.store, glv: k.glv, market_token: m.market_token },
        gmsol_store::instruction::UpdateGlvMarketConfig { max_amount, max_value },
    )
}

pub fn toggle_glv_market_flag_ix(d: &Dep, k: &GlvKeys, market: usize, flag: &str, enable: bool) -> Instruction {
    let m = &d.markets[market];
    store_ix(
        gmsol_store::accounts::UpdateGlvMarketConfig { authority: d.keeper, store: d.store, glv: k.glv, market_token: m.market_token },
        gmsol_store::instruction::ToggleGlvMarketFlag { flag: flag.to_string(), enable },
    )
}

pub fn update_glv_config_ix(d: &Dep, k: &GlvKeys, params: gmsol_store::states::glv::UpdateGlvParams) -> Instruction {
    store_ix(
        gmsol_store::accounts::UpdateGlvConfig { authority: d.keeper, store: d.store, glv: k.glv },
        gmsol_store::instruction::UpdateGlvConfig { params },
    )
}

// ------------------------------------------------------------------ pricing views

/// `get_glv_token_value` with `emit_event = true`.
pub fn get_glv_token_value_ix(d: &Dep, k: &GlvKeys, glv: &Glv, amount: u64, maximize: bool) -> Instruction {
    let mut ix = store_ix(
        gmsol_store::accounts::GetGlvTokenValue {
            authority: d.keeper,
            store: d.store,
            token_map: d.token_map,
            oracle: d.oracle,
            glv: k.glv,
            glv_token: k.glv_token,
            event_authority: d.event_authority,
            program: gmsol_store::ID,
        },
        gmsol_store::instruction::GetGlvTokenValue { amount, maximize, max_age: u32::MAX, emit_event: true },
    );
    ix.accounts.extend(glv_market_metas(d, glv));
    let tokens = glv_feed_tokens(d, glv, &[*glv.long_token(), *glv.short_token()]);
    ix.accounts.extend(feed_metas(d, &tokens));
    ix
}

/// `get_market_token_value` with `emit_event = true`.
pub fn get_market_token_value_ix(d: &Dep, m: &MarketInfo, amount: u64, pnl_factor: &str, maximize: bool) -> Instruction {
    let mut ix = store_ix(
        gmsol_store::accounts::GetMarketTokenValue {
            authority: d.keeper,
            store: d.store,
            token_map: d.token_map,
            oracle: d.oracle,
            market: m.market,
            market_token: m.market_token,
            event_authority: d.event_authority,
            program: gmsol_store::ID,
        },
        gmsol_store::instruction::GetMarketTokenValue {
            amount,
            pnl_factor: pnl_factor.to_string(),
            maximize,
            max_age: u32::MAX,
            emit_event: true,
        },
    );
    let tokens = chainsim::ex::market_feed_tokens(d, m);
    ix.accounts.extend(feed_metas(d, &tokens));
    ix
}

fn disc(name: &str) -> [u8; 8] {
    let h = solana_program::hash::hash(format!("event:{name}").as_bytes());
    h.to_bytes()[..8].try_into().unwrap()
}

/// Bodies (after the 8-byte discriminator) of the `emit_cpi!` events named `name`.
pub fn events_named<'a>(out: &'a TxOutcome, name: &str) -> Vec<&'a [u8]> {
    let d = disc(name);
    out.cpi_events(&gmsol_store::ID).into_iter().filter(|e| e.len() >= 8 && e[..8] == d).map(|e| &e[8..]).collect()
}

/// Little-endian borsh reader for the fixed-layout event bodies.
struct Cur<'a>(&'a [u8]);

impl Cur<'_> {
    fn take<const N: usize>(&mut self) -> Option<[u8; N]> {
        if self.0.len() < N {
            return None;
        }
        let (a, b) = self.0.split_at(N);
        self.0 = b;
        a.try_into().ok()
    }
    fn pk(&mut self) -> Option<Pubkey> {
        self.take::<32>().map(Pubkey::new_from_array)
    }
    fn u8(&mut self) -> Option<u8> {
        self.take::<1>().map(|b| b[0])
    }
    fn u64(&mut self) -> Option<u64> {
        self.take::<8>().map(u64::from_le_bytes)
    }
    fn u128(&mut self) -> Option<u128> {
        self.take::<16>().map(u128::from_le_bytes)
    }
    fn i128(&mut self) -> Option<i128> {
        self.take::<16>().map(i128::from_le_bytes)
    }
}

#[derive(Clone, Debug)]
pub struct MarketTokenValueEv {
    pub market_token: Pubkey,
    pub supply: u128,
    pub is_value_maximized: bool,
    pub pool_value: i128,
    pub amount: u64,
    pub value: u128,
}

#[derive(Clone, Debug)]
pub struct GlvTokenValueEv {
    pub glv_token: Pubkey,
    pub supply: u64,
    pub is_value_maximized: bool,
    pub glv_value: u128,
    pub amount: u64,
    pub value: u128,
}

#[derive(Clone, Debug)]
pub struct GlvPricingEv {
    pub glv_token: Pubkey,
    pub market_token: Pubkey,
    pub supply: u64,
    pub is_value_maximized: bool,
    pub value: u128,
    pub input_amount: u64,
    pub input_value: u128,
    pub output_amount: u64,
    pub kind: u8,
}

pub fn parse_market_token_value(out: &TxOutcome) -> Option<MarketTokenValueEv> {
    let evs = events_named(out, "MarketTokenValue");
    let mut c = Cur(evs.first()?);
    Some(MarketTokenValueEv {
        market_token: c.pk()?,
        supply: c.u128()?,
        is_value_maximized: c.u8()? != 0,
        pool_value: c.i128()?,
        amount: c.u64()?,
        value: c.u128()?,
    })
}

pub fn parse_glv_token_value(out: &TxOutcome) -> Option<GlvTokenValueEv> {
    let evs = events_named(out, "GlvTokenValue");
    let mut c = Cur(evs.first()?);
    Some(GlvTokenValueEv {
        glv_token: c.pk()?,
        supply: c.u64()?,
        is_value_maximized: c.u8()? != 0,
        glv_value: c.u128()?,
        amount: c.u64()?,
        value: c.u128()?,
    })
}

pub fn parse_glv_pricing(out: &TxOutcome) -> Option<GlvPricingEv> {
    let evs = events_named(out, "GlvPricing");
    let mut c = Cur(evs.first()?);
    Some(GlvPricingEv {
        glv_token: c.pk()?,
        market_token: c.pk()?,
        supply: c.u64()?,
        is_value_maximized: c.u8()? != 0,
        value: c.u128()?,
        input_amount: c.u64()?,
        input_value: c.u128()?,
        output_amount: c.u64()?,
        kind: c.u8()?,
    })
}

// ------------------------------------------------------------------ GLV deposit

#[derive(Clone, Debug)]
pub struct GlvDepositArgs {
    pub owner: Pubkey,
    /// Receiver of the GLV tokens (default: the owner).
    pub receiver: Option<Pubkey>,
    pub market: usize,
    pub nonce: [u8; 32],
    pub market_token_amount: u64,
    pub long_amount: u64,
    pub short_amount: u64,
    pub min_market_token: u64,
    pub min_glv_token: u64,
    pub execution_lamports: u64,
}

pub fn create_glv_deposit_tx(d: &Dep, k: &GlvKeys, a: &GlvDepositArgs) -> (Vec<Instruction>, Pubkey) {
    let m = &d.markets[a.market];
    let dep = glv_deposit_pda(d, &a.owner, &a.nonce);
    let receiver = a.receiver.unwrap_or(a.owner);
    let lt = d.tokens[m.long].mint;
    let st = d.tokens[m.short].mint;
    let use_long = a.long_amount > 0;
    let use_short = a.short_amount > 0;
    let use_gm = a.market_token_amount > 0;
    let mut ixs = vec![
        create_ata_ix(&a.owner, &dep, &m.market_token),
        create_ata_2022_ix(&a.owner, &dep, &k.glv_token),
        create_ata_2022_ix(&a.owner, &receiver, &k.glv_token),
        create_ata_ix(&a.owner, &a.owner, &m.market_token),
    ];
    if use_long {
        ixs.push(create_ata_ix(&a.owner, &dep, &lt));
    }
    if use_short {
        ixs.push(create_ata_ix(&a.owner, &dep, &st));
    }
    let ix = store_ix(
        gmsol_store::accounts::CreateGlvDeposit {
            owner: a.owner,
            receiver,
            store: d.store,
            market: m.market,
            glv: k.glv,
            glv_deposit: dep,
            glv_token: k.glv_token,
            market_token: m.market_token,
            initial_long_token: use_long.then_some(lt),
            initial_short_token: use_short.then_some(st),
            market_token_source: use_gm.then(|| ata(&a.owner, &m.market_token)),
            initial_long_token_source: use_long.then(|| ata(&a.owner, &lt)),
            initial_short_token_source: use_short.then(|| ata(&a.owner, &st)),
            glv_token_escrow: ata_2022(&dep, &k.glv_token),
            market_token_escrow: ata(&dep, &m.market_token),
            initial_long_token_escrow: use_long.then(|| ata(&dep, &lt)),
            initial_short_token_escrow: use_short.then(|| ata(&dep, &st)),
            system_program: system_program::ID,
            token_program: TOKEN_PROGRAM,
            glv_token_program: TOKEN_2022,
            associated_token_program: ATA_PROGRAM,
        },
        gmsol_store::instruction::CreateGlvDeposit {
            nonce: a.nonce,
            params: gmsol_store::ops::glv::CreateGlvDepositParams {
                execution_lamports: a.execution_lamports,
                long_token_swap_length: 0,
                short_token_swap_length: 0,
                initial_long_token_amount: a.long_amount,
                initial_short_token_amount: a.short_amount,
                market_token_amount: a.market_token_amount,
                min_market_token_amount: a.min_market_token,
                min_glv_token_amount: a.min_glv_token,
                should_unwrap_native_token: false,
            },
        },
    );
    ixs.push(ix);
    (ixs, dep)
}

pub fn execute_glv_deposit_ix(w: &World, d: &Dep, dep_key: &Pubkey, authority: &Pubkey, throw: bool, execution_lamports: u64) -> Option<Instruction> {
    let dep: GlvDeposit = read_pod(w, dep_key)?;
    let mt = dep.tokens().market_token();
    let glv_token = dep.tokens().glv_token();
    let glv_key = glv_of_token(&glv_token);
    let glv = read_glv(w, &glv_key)?;
    let market = market_by_token(d, &mt)?;
    let lt = dep.tokens().initial_long_token.token();
    let st = dep.tokens().initial_short_token.token();
    let mut ix = store_ix(
        gmsol_store::accounts::ExecuteGlvDeposit {
            authority: *authority,
            store: d.store,
            token_map: d.token_map,
            oracle: d.oracle,
            glv: glv_key,
            market: market.market,
            glv_deposit: *dep_key,
            glv_token,
            market_token: mt,
            initial_long_token: lt,
            initial_short_token: st,
            glv_token_escrow: ata_2022(dep_key, &glv_token),
            market_token_escrow: ata(dep_key, &mt),
            initial_long_token_escrow: lt.map(|t| ata(dep_key, &t)),
            initial_short_token_escrow: st.map(|t| ata(dep_key, &t)),
            initial_long_token_vault: lt.map(|t| vault_of(&d.store, &t)),
            initial_short_token_vault: st.map(|t| vault_of(&d.store, &t)),
            market_token_vault: glv_vault(&glv_key, &mt),
            token_program: TOKEN_PROGRAM,
            glv_token_program: TOKEN_2022,
            system_program: system_program::ID,
            chainlink_program: None,
            event_authority: d.event_authority,
            program: gmsol_store::ID,
        },
        gmsol_store::instruction::ExecuteGlvDeposit { execution_lamports, throw_on_execution_error: throw },
    );
    ix.accounts.extend(glv_market_metas(d, &glv));
    let tokens = glv_feed_tokens(d, &glv, dep.swap().tokens());
    ix.accounts.extend(feed_metas(d, &tokens));
    Some(ix)
}

pub fn close_glv_deposit_ix(w: &World, d: &Dep, dep_key: &Pubkey, executor: &Pubkey) -> Option<Instruction> {
    let dep: GlvDeposit = read_pod(w, dep_key)?;
    let owner = *dep.header().owner();
    let receiver = dep.header().receiver();
    let mt = dep.tokens().market_token();
    let glv_token = dep.tokens().glv_token();
    let lt = dep.tokens().initial_long_token.token();
    let st = dep.tokens().initial_short_token.token();
    Some(store_ix(
        gmsol_store::accounts::CloseGlvDeposit {
            executor: *executor,
            store: d.store,
            store_wallet: d.store_wallet,
            owner,
            receiver,
            glv_deposit: *dep_key,
            market_token: mt,
            initial_long_token: lt,
            initial_short_token: st,
            glv_token,
            market_token_escrow: ata(dep_key, &mt),
            initial_long_token_escrow: lt.map(|t| ata(dep_key, &t)),
            initial_short_token_escrow: st.map(|t| ata(dep_key, &t)),
            glv_token_escrow: ata_2022(dep_key, &glv_token),
            market_token_ata: ata(&owner, &mt),
            initial_long_token_ata: lt.map(|t| ata(&owner, &t)),
            initial_short_token_ata: st.map(|t| ata(&owner, &t)),
            glv_token_ata: ata_2022(&receiver, &glv_token),
            system_program: system_program::ID,
            token_program: TOKEN_PROGRAM,
            glv_token_program: TOKEN_2022,
            associated_token_program: ATA_PROGRAM,
            event_authority: d.event_authority,
            program: gmsol_store::ID,
        },
        gmsol_store::instruction::CloseGlvDeposit { reason: "sim".to_string() },
    ))
}

// ------------------------------------------------------------------ GLV withdrawal

#[derive(Clone, Debug)]
pub struct GlvWithdrawalArgs {
    pub owner: Pubkey,
    pub market: usize,
    pub nonce: [u8; 32],
    pub glv_token_amount: u64,
    pub min_long: u64,
    pub min_short: u64,
    pub execution_lamports: u64,
}

pub fn create_glv_withdrawal_tx(d: &Dep, k: &GlvKeys, a: &GlvWithdrawalArgs) -> (Vec<Instruction>, Pubkey) {
    let m = &d.markets[a.market];
    let wd = glv_withdrawal_pda(d, &a.owner, &a.nonce);
    let lt = d.tokens[m.long].mint;
    let st = d.tokens[m.short].mint;
    let ixs = vec![
        create_ata_ix(&a.owner, &wd, &m.market_token),
        create_ata_2022_ix(&a.owner, &wd, &k.glv_token),
        create_ata_ix(&a.owner, &wd, &lt),
        create_ata_ix(&a.owner, &wd, &st),
        create_ata_ix(&a.owner, &a.owner, &lt),
        create_ata_ix(&a.owner, &a.owner, &st),
        store_ix(
            gmsol_store::accounts::CreateGlvWithdrawal {
                owner: a.owner,
                receiver: a.owner,
                store: d.store,
                market: m.market,
                glv: k.glv,
                glv_withdrawal: wd,
                glv_token: k.glv_token,
                market_token: m.market_token,
                final_long_token: lt,
                final_short_token: st,
                glv_token_source: ata_2022(&a.owner, &k.glv_token),
                glv_token_escrow: ata_2022(&wd, &k.glv_token),
                market_token_escrow: ata(&wd, &m.market_token),
                final_long_token_escrow: ata(&wd, &lt),
                final_short_token_escrow: ata(&wd, &st),
                system_program: system_program::ID,
                token_program: TOKEN_PROGRAM,
                glv_token_program: TOKEN_2022,
                associated_token_program: ATA_PROGRAM,
            },
            gmsol_store::instruction::CreateGlvWithdrawal {
                nonce: a.nonce,
                params: gmsol_store::ops::glv::CreateGlvWithdrawalParams {
                    execution_lamports: a.execution_lamports,
                    long_token_swap_length: 0,
                    short_token_swap_length: 0,
                    glv_token_amount: a.glv_token_amount,
                    min_final_long_token_amount: a.min_long,
                    min_final_short_token_amount: a.min_short,
                    should_unwrap_native_token: false,
                },
            },
        ),
    ];
    (ixs, wd)
}

pub fn execute_glv_withdrawal_ix(w: &World, d: &Dep, wd_key: &Pubkey, authority: &Pubkey, throw: bool, execution_lamports: u64) -> Option<Instruction> {
    let x: GlvWithdrawal = read_pod(w, wd_key)?;
    let mt = x.tokens().market_token();
    let glv_token = x.tokens().glv_token();
    let glv_key = glv_of_token(&glv_token);
    let glv = read_glv(w, &glv_key)?;
    let market = market_by_token(d, &mt)?;
    let lt = x.tokens().final_long_token();
    let st = x.tokens().final_short_token();
    let mut ix = store_ix(
        gmsol_store::accounts::ExecuteGlvWithdrawal {
            authority: *authority,
            store: d.store,
            token_map: d.token_map,
            oracle: d.oracle,
            glv: glv_key,
            market: market.market,
            glv_withdrawal: *wd_key,
            glv_token,
            market_token: mt,
            final_long_token: lt,
            final_short_token: st,
            glv_token_escrow: ata_2022(wd_key, &glv_token),
            market_token_escrow: ata(wd_key, &mt),
            final_long_token_escrow: ata(wd_key, &lt),
            final_short_token_escrow: ata(wd_key, &st),
            market_token_withdrawal_vault: vault_of(&d.store, &mt),
            final_long_token_vault: vault_of(&d.store, &lt),
            final_short_token_vault: vault_of(&d.store, &st),
            market_token_vault: glv_vault(&glv_key, &mt),
            token_program: TOKEN_PROGRAM,
            glv_token_program: TOKEN_2022,
            system_program: system_program::ID,
            chainlink_program: None,
            event_authority: d.event_authority,
            program: gmsol_store::ID,
        },
        gmsol_store::instruction::ExecuteGlvWithdrawal { execution_lamports, throw_on_execution_error: throw },
    );
    ix.accounts.extend(glv_market_metas(d, &glv));
    let tokens = glv_feed_tokens(d, &glv, HasSwapParams::swap(&x).tokens());
    ix.accounts.extend(feed_metas(d, &tokens));
    Some(ix)
}

pub fn close_glv_withdrawal_ix(w: &World, d: &Dep, wd_key: &Pubkey, executor: &Pubkey) -> Option<Instruction> {
    let x: GlvWithdrawal = read_pod(w, wd_key)?;
    let owner = *x.header().owner();
    let receiver = x.header().receiver();
    let mt = x.tokens().market_token();
    let glv_token = x.tokens().glv_token();
    let lt = x.tokens().final_long_token();
    let st = x.tokens().final_short_token();
    Some(store_ix(
        gmsol_store::accounts::CloseGlvWithdrawal {
            executor: *executor,
            store: d.store,
            store_wallet: d.store_wallet,
            owner,
            receiver,
            glv_withdrawal: *wd_key,
            market_token: mt,
            final_long_token: lt,
            final_short_token: st,
            glv_token,
            market_token_escrow: ata(wd_key, &mt),
            final_long_token_escrow: ata(wd_key, &lt),
            final_short_token_escrow: ata(wd_key, &st),
            market_token_ata: ata(&owner, &mt),
            final_long_token_ata: ata(&receiver, &lt),
            final_short_token_ata: ata(&receiver, &st),
            glv_token_escrow: ata_2022(wd_key, &glv_token),
            glv_token_ata: ata_2022(&owner, &glv_token),
            system_program: system_program::ID,
            token_program: TOKEN_PROGRAM,
            glv_token_program: TOKEN_2022,
            associated_token_program: ATA_PROGRAM,
            event_authority: d.event_authority,
            program: gmsol_store::ID,
        },
        gmsol_store::instruction::CloseGlvWithdrawal { reason: "sim".to_string() },
    ))
}

// ------------------------------------------------------------------ GLV shift

#[derive(Clone, Debug)]
pub struct GlvShiftArgs {
    pub authority: Pubkey,
    pub from_market: usize,
    pub to_market: usize,
    pub nonce: [u8; 32],
    pub amount: u64,
    pub min_to: u64,
    pub execution_lamports: u64,
}

pub fn create_glv_shift_ix(d: &Dep, k: &GlvKeys, a: &GlvShiftArgs) -> (Instruction, Pubkey) {
    let fm = &d.markets[a.from_market];
    let tm = &d.markets[a.to_market];
    let shift = glv_shift_pda(d, &a.authority, &a.nonce);
    let ix = store_ix(
        gmsol_store::accounts::CreateGlvShift {
            authority: a.authority,
            store: d.store,
            glv: k.glv,
            from_market: fm.market,
            to_market: tm.market,
            glv_shift: shift,
            from_market_token: fm.market_token,
            to_market_token: tm.market_token,
            from_market_token_vault: glv_vault(&k.glv, &fm.market_token),
            to_market_token_vault: glv_vault(&k.glv, &tm.market_token),
            system_program: system_program::ID,
            token_program: TOKEN_PROGRAM,
            associated_token_program: ATA_PROGRAM,
        },
        gmsol_store::instruction::CreateGlvShift {
            nonce: a.nonce,
            params: gmsol_store::ops::shift::CreateShiftParams {
                execution_lamports: a.execution_lamports,
                from_market_token_amount: a.amount,
                min_to_market_token_amount: a.min_to,
            },
        },
    );
    (ix, shift)
}

pub fn execute_glv_shift_ix(w: &World, d: &Dep, shift_key: &Pubkey, authority: &Pubkey, throw: bool, execution_lamports: u64) -> Option<Instruction> {
    let x: GlvShift = read_pod(w, shift_key)?;
    let glv_key = *x.glv();
    let fmt = x.tokens().from_market_token();
    let tmt = x.tokens().to_market_token();
    let fm = market_by_token(d, &fmt)?;
    let tm = market_by_token(d, &tmt)?;
    let tokens: Vec<Pubkey> = {
        let mut t: BTreeSet<Pubkey> = Default::default();
        for m in [fm, tm] {
            t.insert(d.tokens[m.index].mint);
            t.insert(d.tokens[m.long].mint);
            t.insert(d.tokens[m.short].mint);
        }
        t.into_iter().collect()
    };
    let mut ix = store_ix(
        gmsol_store::accounts::ExecuteGlvShift {
            authority: *authority,
            store: d.store,
            token_map: d.token_map,
            oracle: d.oracle,
            glv: glv_key,
            from_market: fm.market,
            to_market: tm.market,
            glv_shift: *shift_key,
            from_market_token: fmt,
            to_market_token: tmt,
            from_market_token_glv_vault: glv_vault(&glv_key, &fmt),
            to_market_token_glv_vault: glv_vault(&glv_key, &tmt),
            from_market_token_vault: vault_of(&d.store, &fmt),
            token_program: TOKEN_PROGRAM,
            chainlink_program: None,
            event_authority: d.event_authority,
            program: gmsol_store::ID,
        },
        gmsol_store::instruction::ExecuteGlvShift { execution_lamports, throw_on_execution_error: throw },
    );
    ix.accounts.extend(feed_metas(d, &tokens));
    Some(ix)
}

pub fn close_glv_shift_ix(w: &World, d: &Dep, shift_key: &Pubkey, authority: &Pubkey) -> Option<Instruction> {
    let x: GlvShift = read_pod(w, shift_key)?;
    let glv_key = *x.glv();
    let funder = *x.funder();
    Some(store_ix(
        gmsol_store::accounts::CloseGlvShift {
            authority: *authority,
            funder,
            store: d.store,
            store_wallet: d.store_wallet,
            glv: glv_key,
            glv_shift: *shift_key,
            from_market_token: x.tokens().from_market_token(),
            to_market_token: x.tokens().to_market_token(),
            system_program: system_program::ID,
            token_program: TOKEN_PROGRAM,
            associated_token_program: ATA_PROGRAM,
            event_authority: d.event_authority,
            program: gmsol_store::ID,
        },
        gmsol_store::instruction::CloseGlvShift { reason: "sim".to_string() },
    ))
}

/// Action state of any action account (`0` pending, `1` completed, `2` cancelled), `None` when the account is gone.
pub fn action_state_of(w: &World, key: &Pubkey, kind: ActionKind) -> Option<u8> {
    use gmsol_utils::action::ActionState;
    let st = match kind {
        ActionKind::Deposit => read_pod::<GlvDeposit>(w, key)?.header().action_state().ok()?,
        ActionKind::Withdrawal => read_pod::<GlvWithdrawal>(w, key)?.header().action_state().ok()?,
        ActionKind::Shift => read_pod::<GlvShift>(w, key)?.header().action_state().ok()?,
    };
    Some(match st {
        ActionState::Pending => 0,
        ActionState::Completed => 1,
        ActionState::Cancelled => 2,
        _ => 255,
    })
}

#[derive(Clone, Copy, Debug, PartialEq, Eq, serde::Serialize, serde::Deserialize)]
pub enum ActionKind {
    Deposit,
    Withdrawal,
    Shift,
}
