//! Scenario `glv_history`: one GLV over 2-4 markets sharing long/short tokens, keeper management,
//! user GLV deposits / withdrawals, keeper shifts, price moves, clock advances, lifecycle faults.
//!
//! Oracles (property C45 unless noted):
//! * `composition`       — every market of the GLV has the GLV's long and short tokens (Glv account vs the
//!                         Market accounts vs the deployment table).
//! * `balance_cap_amount` / `balance_cap_value` — after every completed GLV deposit the market's recorded
//!                         balance (and the vault balance net of dust) is within `max_amount` / `max_value`.
//! * `deposit_pricing`   — minted == usd_to_amount(received_value_min, glv_value_max, supply) recomputed from
//!                         `get_market_token_value` events with BigUint arithmetic.
//! * `withdrawal_pricing`— market tokens taken == floor(S * floor(burn * glv_value_min / supply) / pool_max).
//! * `round_trip`        — fork: GLV deposit then immediate GLV withdrawal of everything minted never takes
//!                         more market tokens out of the GLV than the deposit put in.
//! * `vault_conservation`— vault balance == recorded balance + dust sent by users, for every GLV market.
//! * `supply_conservation` — GLV token supply changes only by completed deposits (mint) / withdrawals (burn).
//! * lifecycle (reported under C23): `exec_once`, `terminal_stays`, `close_auth`, `escrow_home`,
//!   `cancel_no_touch`.

use std::collections::BTreeMap;
use std::sync::{Arc, OnceLock};

use serde::{Deserialize, Serialize};
use solana_program::{instruction::Instruction, pubkey::Pubkey};

use chainsim::deploy::{ata, ata_2022, deploy_full, mint_supply, read_pod, token_balance, Dep, DeployOpts, TokenSpec};
use chainsim::ex;
use chainsim::report::ReportSpec;
use chainsim::rt::{TxOpts, TxOutcome, World};
use simcore::big::{BigUint, bu};
use simcore::{Components, Obs, Rng, Scenario, Tier};

use crate::glvx::{self, ActionKind, GlvKeys};

pub const P45: &str = "C45";
pub const P23: &str = "C23";

pub const N_TOKENS: usize = 7;
/// Markets 0..4 share (SOL, USDC); 4 has a foreign short token, 5 a foreign long token, 6 has the GLV's own two
/// tokens in reversed roles (long USDC, short SOL).
pub const N_COMPAT: usize = 4;
pub const N_MARKETS: usize = 7;
pub const N_USERS: usize = 3;
const EXEC_LAMPORTS: u64 = 5_000_000;
const USD: u128 = 100_000_000_000_000_000_000; // 10^20
const DIVISOR: u128 = 100_000_000_000; // MARKET_USD_TO_AMOUNT_DIVISOR = 10^(20-9)

// ------------------------------------------------------------------------------------------------ plan

#[derive(Clone, Copy, Debug, PartialEq, Eq, Serialize, Deserialize)]
pub enum Batch {
    /// No faults: every create is followed by execute and close by the right parties.
    Plain,
    /// Lifecycle faults: duplicates, reordering, crashes, strangers, injected CPI failures, expiry, dust.
    Faults,
    /// Out-of-range management parameters (tiny / huge caps, zero intervals, first-deposit rules).
    Misconfig,
}

#[derive(Clone, Debug, Serialize, Deserialize)]
pub struct Cfg {
    pub batch: Batch,
    /// How many of the compatible markets the plan uses (2..=4).
    pub n_markets: u8,
    /// Initial spread of every feed in basis points.
    pub spread_bps: u16,
    /// Open some positions first so that pool values carry PnL.
    pub with_positions: bool,
}

/// `m * 10^e` (u128 values do not survive JSON as numbers).
#[derive(Clone, Copy, Debug, PartialEq, Eq, Serialize, Deserialize)]
pub struct Val {
    pub m: u64,
    pub e: u8,
}

impl Val {
    pub fn get(&self) -> u128 {
        (self.m as u128).saturating_mul(10u128.saturating_pow(self.e as u32))
    }
}

#[derive(Clone, Copy, Debug, PartialEq, Eq, Serialize, Deserialize)]
pub enum Who {
    Keeper,
    Stranger,
    User(u8),
}

#[derive(Clone, Copy, Debug, PartialEq, Eq, Serialize, Deserialize)]
pub enum CloseBy {
    Owner,
    Keeper,
    Stranger,
}

#[derive(Clone, Debug, Serialize, Deserialize)]
pub enum Step {
    Advance { secs: u32, repost: bool },
    SetPrice { token: u8, price_e6: u64, spread_bps: u16 },
    InitGlv { mask: u8 },
    Insert { m: u8, by: Who, market_of: Option<u8> },
    Remove { m: u8 },
    Config { m: u8, max_amount: Option<u64>, max_value: Option<Val> },
    Toggle { m: u8, enable: bool },
    GlvConfig { min_first: Option<u64>, interval: Option<u32>, impact: Option<Val>, min_value: Option<Val> },
    CreateDeposit { user: u8, m: u8, gm: u64, long: u64, short: u64, min_glv: u64, min_gm: u64, first_receiver: bool },
    CreateWithdrawal { user: u8, m: u8, bps: u16, min_long: u64, min_short: u64 },
    CreateShift { from: u8, to: u8, bps: u16, min_to: u64 },
    /// Execute the k-th most recent live action.
    Execute { k: u8, throw: bool, by: Who, fail_cpi: Option<u8> },
    Close { k: u8, by: CloseBy },
    MarketDeposit { user: u8, m: u8, long: u64, short: u64 },
    MarketWithdraw { user: u8, m: u8, bps: u16 },
    /// A user sends market tokens straight into the GLV vault.
    Dust { user: u8, m: u8, amount: u64 },
    OpenPosition { user: u8, m: u8, is_long: bool, size_usd: u32, collateral_usd: u32 },
    /// Fork probe: deposit then withdraw everything minted.
    RoundTrip { user: u8, m: u8, gm: u64, long: u64, short: u64 },
    /// Fork probe: set the cap right at / below the post-deposit balance or value and deposit.
    CapEdge { user: u8, m: u8, gm: u64, mode: u8 },
}

// ------------------------------------------------------------------------------------------------ base world

pub struct Base {
    pub w: World,
    pub d: Arc<Dep>,
    pub stranger: Pubkey,
    pub k: GlvKeys,
}

pub const INITIAL_PRICE_E6: [u64; N_TOKENS] = [150_000_000, 1_000_000, 60_000_000_000, 3_000_000_000, 100_000, 1_000_000, 3_000_000];

fn report(d: &Dep, token: usize, ts: i64, price_e6: u64, spread_bps: u16) -> ReportSpec {
    let t = &d.tokens[token];
    let price = price_e6 as i128 * 1_000_000_000_000;
    let delta = price * spread_bps as i128 / 10_000;
    ReportSpec {
        schema: t.schema,
        feed_id: t.feed_id,
        valid_from: ts as u32,
        observations_ts: ts as u32,
        expires_at: (ts + 3600) as u32,
        price,
        bid: price - delta,
        ask: price + delta,
        market_status: 2,
        last_update_ns: (ts as u64) * 1_000_000_000,
    }
}

fn must(label: &str, out: TxOutcome) {
    if !out.ok {
        panic!("base world step `{label}` failed: {} {:?} {:?}", out.class(), out.panic, out.runtime_rule);
    }
}

fn build_base() -> Base {
    let mut w = World::new(1_700_000_000, 1000);
    let opts = DeployOpts {
        tokens: vec![
            TokenSpec { name: "SOL", decimals: 9, precision: 4, synthetic: false, schema: 3, heartbeat: 120 },
            TokenSpec { name: "USDC", decimals: 6, precision: 6, synthetic: false, schema: 3, heartbeat: 120 },
            TokenSpec { name: "BTC", decimals: 8, precision: 2, synthetic: true, schema: 3, heartbeat: 120 },
            TokenSpec { name: "ETH", decimals: 8, precision: 3, synthetic: true, schema: 3, heartbeat: 120 },
            TokenSpec { name: "DOGE", decimals: 8, precision: 6, synthetic: true, schema: 3, heartbeat: 120 },
            TokenSpec { name: "USDT", decimals: 6, precision: 6, synthetic: false, schema: 3, heartbeat: 120 },
            TokenSpec { name: "JTO", decimals: 9, precision: 5, synthetic: false, schema: 3, heartbeat: 120 },
        ],
        markets: vec![(0, 0, 1), (2, 0, 1), (3, 0, 1), (4, 0, 1), (0, 0, 5), (0, 6, 1), (0, 1, 0)],
        n_users: N_USERS,
        user_token_amount: 1_000_000_000_000_000,
        start_ts: 1_700_000_000,
        start_slot: 1000,
    };
    let d = deploy_full(&mut w, &opts);
    let now = w.clock.unix_timestamp;
    for t in 0..N_TOKENS {
        must("feed", w.process(ex::update_feed_ix(&d, t, &report(&d, t, now, INITIAL_PRICE_E6[t], 2), false)));
    }
    let mut n = 0u8;
    for m in 0..N_MARKETS {
        for u in 0..N_USERS {
            n += 1;
            let mut nonce = [0u8; 32];
            nonce[0] = n;
            nonce[31] = 0xb5;
            let owner = d.users[u];
            let (ixs, dep) = ex::create_deposit_tx(
                &d,
                &ex::DepositArgs {
                    owner,
                    market: m,
                    nonce,
                    long_amount: 150_000_000_000,
                    short_amount: 25_000_000_000,
                    min_market_token: 0,
                    execution_lamports: EXEC_LAMPORTS,
                    initial_long_token: None,
                    initial_short_token: None,
                    long_path: vec![],
                    short_path: vec![],
                },
            );
            must("seed create", w.process_tx(&ixs, &TxOpts::default()));
            must("seed execute", w.process(ex::execute_deposit_ix(&w, &d, &dep, true, 5000).unwrap()));
            must("seed close", w.process(ex::close_deposit_ix(&w, &d, &dep, &owner).unwrap()));
        }
    }
    let stranger = w.new_key("stranger");
    w.fund(&stranger, 1_000_000_000_000);
    let k = glvx::glv_keys(&d, 0);
    Base { w, d: Arc::new(d), stranger, k }
}

pub fn base() -> &'static Base {
    static BASE: OnceLock<Base> = OnceLock::new();
    BASE.get_or_init(build_base)
}

// ------------------------------------------------------------------------------------------------ simulation state

#[derive(Clone, Debug)]
pub struct Act {
    pub kind: ActionKind,
    pub key: Pubkey,
    pub owner: Pubkey,
    /// Receiver of the GLV tokens of a deposit (the owner otherwise).
    pub receiver: Pubkey,
    pub market: usize,
    pub to_market: usize,
    /// Owner balances right before the create transaction: (GM, long, short, GLV).
    pub before: [u64; 4],
    /// Amounts moved into escrow at creation: (GM, long, short, GLV).
    pub escrowed: [u64; 4],
    /// Last observed state: 0 pending, 1 completed, 2 cancelled.
    pub state: u8,
    pub glv_amount: u64,
}

#[derive(Clone)]
pub struct Sim {
    pub w: World,
    pub d: Arc<Dep>,
    pub k: GlvKeys,
    pub stranger: Pubkey,
    pub n_markets: usize,
    pub px: [(u64, u16); N_TOKENS],
    pub nonce: u64,
    pub acts: Vec<Act>,
    pub dust: [u64; N_MARKETS],
    /// Expected GLV token supply.
    pub supply: u64,
    pub event_index: u16,
    /// Inside a fork probe (history lines are prefixed).
    pub forked: bool,
}

/// Pool value and supply of a market token as reported by `get_market_token_value`.
#[derive(Clone, Debug)]
pub struct Mtv {
    pub pool_value: i128,
    pub supply: u128,
    pub value: u128,
}

impl Sim {
    pub fn new(b: &Base, cfg: &Cfg) -> Sim {
        let mut px = [(0u64, 0u16); N_TOKENS];
        for t in 0..N_TOKENS {
            px[t] = (INITIAL_PRICE_E6[t], 2);
        }
        let _ = cfg;
        Sim {
            w: b.w.clone(),
            d: b.d.clone(),
            k: b.k,
            stranger: b.stranger,
            n_markets: (cfg.n_markets as usize).clamp(2, N_COMPAT),
            px,
            nonce: 0,
            acts: vec![],
            dust: [0; N_MARKETS],
            supply: 0,
            event_index: 0,
            forked: false,
        }
    }

    pub fn who(&self, w: Who) -> Pubkey {
        match w {
            Who::Keeper => self.d.keeper,
            Who::Stranger => self.stranger,
            Who::User(u) => self.d.users[u as usize % N_USERS],
        }
    }

    pub fn role(w: Who) -> &'static str {
        match w {
            Who::Keeper => "keeper",
            Who::Stranger => "stranger",
            Who::User(_) => "user",
        }
    }

    fn next_nonce(&mut self) -> [u8; 32] {
        self.nonce += 1;
        let mut n = [0u8; 32];
        n[..8].copy_from_slice(&self.nonce.to_le_bytes());
        n[31] = if self.forked { 0xf0 } else { 0x01 };
        n
    }

    pub fn tx(&mut self, obs: &mut Obs, role: &str, op: &str, ixs: &[Instruction], opts: &TxOpts) -> TxOutcome {
        let out = self.w.process_tx(ixs, opts);
        let class = out.class();
        if !self.forked {
            obs.outcome(role, op, &class);
        } else {
            obs.outcome(role, &format!("fork:{op}"), &class);
        }
        let forked = self.forked;
        obs.probe(&format!("tx:{op}:{class}"));
        obs.event(|| format!("{}{role} {op} -> {class}", if forked { "  [fork] " } else { "" }));
        out
    }

    pub fn glv(&self) -> Option<gmsol_store::states::Glv> {
        glvx::read_glv(&self.w, &self.k.glv)
    }

    pub fn recorded(&self, m: usize) -> Option<u64> {
        let glv = self.glv()?;
        glv.market_config(&self.d.markets[m].market_token).map(|c| c.balance())
    }

    pub fn vault_balance(&self, m: usize) -> u64 {
        token_balance(&self.w, &glvx::glv_vault(&self.k.glv, &self.d.markets[m].market_token))
    }

    pub fn glv_supply(&self) -> u64 {
        mint_supply(&self.w, &self.k.glv_token)
    }

    /// Indices (into `d.markets`) of the GLV's markets, in the GLV's order.
    pub fn glv_markets(&self) -> Vec<usize> {
        match self.glv() {
            Some(g) => g.market_tokens().filter_map(|mt| self.d.markets.iter().position(|m| m.market_token == mt)).collect(),
            None => vec![],
        }
    }

    pub fn post_prices(&mut self, obs: &mut Obs) {
        let now = self.w.clock.unix_timestamp;
        for t in 0..N_TOKENS {
            let (p, s) = self.px[t];
            let ix = ex::update_feed_ix(&self.d, t, &report(&self.d, t, now, p, s), false);
            let out = self.w.process(ix);
            if !out.ok {
                obs.probe("feed_update_failed");
            }
        }
    }

    /// `get_market_token_value` on a scratch copy of the world.
    pub fn mtv(scratch: &mut World, d: &Dep, m: usize, amount: u64, pnl: &str, maximize: bool) -> Option<Mtv> {
        let out = scratch.process(glvx::get_market_token_value_ix(d, &d.markets[m], amount, pnl, maximize));
        if !out.ok {
            return None;
        }
        let ev = glvx::parse_market_token_value(&out)?;
        Some(Mtv { pool_value: ev.pool_value, supply: ev.supply, value: ev.value })
    }

    /// floor(amount * pool / supply) with big integers; `None` when not evaluable.
    pub fn value_of(amount: u64, v: &Mtv) -> Option<BigUint> {
        if v.pool_value < 0 || v.supply == 0 {
            return None;
        }
        Some(bu(amount as u128) * bu(v.pool_value as u128) / bu(v.supply))
    }

    /// Σ over `balances` of floor(b_i * pool_i / supply_i) on `scratch` (GLV value from accounts).
    pub fn glv_value(scratch: &mut World, d: &Dep, balances: &[(usize, u64)], maximize: bool) -> Option<BigUint> {
        let mut total = BigUint::from(0u32);
        for (m, b) in balances {
            if *b == 0 {
                continue;
            }
            let v = Self::mtv(scratch, d, *m, *b, "max_after_deposit", maximize)?;
            total += Self::value_of(*b, &v)?;
        }
        Some(total)
    }

    pub fn balances(&self) -> Vec<(usize, u64)> {
        self.glv_markets().into_iter().map(|m| (m, self.recorded(m).unwrap_or(0))).collect()
    }

    fn owner_balances(&self, owner: &Pubkey, m: usize) -> [u64; 4] {
        let mk = &self.d.markets[m];
        [
            token_balance(&self.w, &ata(owner, &mk.market_token)),
            token_balance(&self.w, &ata(owner, &self.d.tokens[mk.long].mint)),
            token_balance(&self.w, &ata(owner, &self.d.tokens[mk.short].mint)),
            token_balance(&self.w, &ata_2022(owner, &self.k.glv_token)),
        ]
    }

    // -------------------------------------------------------------------------------------------- invariants

    /// Oracles evaluated after every step.
    pub fn invariants(&mut self, obs: &mut Obs) {
        let Some(glv) = self.glv() else {
            return;
        };
        let d = self.d.clone();
        // composition
        let long = *glv.long_token();
        let short = *glv.short_token();
        for mt in glv.market_tokens() {
            let Some(mi) = d.markets.iter().position(|m| m.market_token == mt) else {
                obs.violation(P45, "composition", "unknown_market_token".into(), format!("GLV lists market token {mt} that no deployed market has"));
                continue;
            };
            let info = &d.markets[mi];
            let table_ok = d.tokens[info.long].mint == long && d.tokens[info.short].mint == short;
            let acc: Option<gmsol_store::states::Market> = read_pod(&self.w, &info.market);
            let acc_ok = acc.map(|mk| {
                let meta = mk.meta();
                meta.long_token_mint == long && meta.short_token_mint == short && meta.market_token_mint == mt
            });
            obs.checked("composition");
            if !table_ok || acc_ok != Some(true) {
                obs.violation(
                    P45,
                    "composition",
                    format!("market={},foreign_long={},foreign_short={}", mi, d.tokens[info.long].mint != long, d.tokens[info.short].mint != short),
                    format!("GLV long={long} short={short} contains market {mi} ({}) with long={} short={}", info.name, d.tokens[info.long].mint, d.tokens[info.short].mint),
                );
            }
            // vault conservation
            let rec = glv.market_config(&mt).map(|c| c.balance()).unwrap_or(0);
            let vault = token_balance(&self.w, &glvx::glv_vault(&self.k.glv, &mt));
            obs.checked("vault_conservation");
            if vault as u128 != rec as u128 + self.dust[mi] as u128 {
                obs.violation(
                    P45,
                    "vault_conservation",
                    format!("market={},vault_lt_recorded={}", mi, (vault as u128) < rec as u128 + self.dust[mi] as u128),
                    format!("market {mi}: vault holds {vault}, GLV records {rec}, dust sent {}", self.dust[mi]),
                );
            }
        }
        let s = self.glv_supply();
        obs.checked("supply_conservation");
        if s != self.supply {
            obs.violation(
                P45,
                "supply_conservation",
                format!("grew={}", s > self.supply),
                format!("GLV token supply is {s}, expected {} from executed deposits/withdrawals", self.supply),
            );
            self.supply = s;
        }
        // lifecycle: terminal states stay
        for i in 0..self.acts.len() {
            let a = self.acts[i].clone();
            if let Some(st) = glvx::action_state_of(&self.w, &a.key, a.kind) {
                if a.state != 0 && st != a.state {
                    obs.violation(P23, "terminal_stays", format!("kind={:?},from={},to={}", a.kind, a.state, st), format!("action {} left terminal state {} for {}", a.key, a.state, st));
                }
                self.acts[i].state = st;
            }
        }
    }

    // -------------------------------------------------------------------------------------------- management steps

    pub fn step_init(&mut self, obs: &mut Obs, mask: u8) {
        let mut ms: Vec<usize> = (0..self.n_markets).filter(|i| mask & (1 << i) != 0).collect();
        // bits 6 / 7: also pass the market with a foreign short / long token (must be rejected)
        if mask & 0x40 != 0 {
            ms.push(N_COMPAT);
        }
        if mask & 0x80 != 0 {
            ms.push(N_COMPAT + 1);
        }
        let foreign = mask & 0xc0 != 0 && ms.len() > 1;
        if ms.is_empty() {
            obs.event(|| "init_glv noop (empty mask)".into());
            return;
        }
        let ix = glvx::initialize_glv_ix(&self.d, &self.k, &ms);
        let existed = self.glv().is_some();
        let out = self.tx(obs, "keeper", "initialize_glv", &[ix], &TxOpts::default());
        if out.ok && existed {
            obs.probe("reinit_accepted");
        }
        if foreign {
            obs.probe(if out.ok { "init_foreign_accepted" } else { "init_foreign_rejected" });
        }
    }

    pub fn step_insert(&mut self, obs: &mut Obs, m: usize, by: Who, market_of: Option<usize>) {
        if self.glv().is_none() {
            return;
        }
        let signer = self.who(by);
        if by != Who::Keeper || market_of.is_some_and(|o| o != m) {
            obs.fault("byzantine_insert");
        }
        let ix = match market_of {
            Some(o) if o != m => {
                let mut ix = glvx::insert_glv_market_mixed_ix(&self.d, &self.k, m, o);
                ix.accounts[0].pubkey = signer;
                ix
            }
            _ => glvx::insert_glv_market_ix(&self.d, &self.k, m, &signer),
        };
        let foreign = m >= N_COMPAT;
        let out = self.tx(obs, Self::role(by), if foreign { "insert_foreign" } else { "insert_market" }, &[ix], &TxOpts::default());
        if foreign {
            obs.probe(if out.ok { "insert_foreign_accepted" } else { "insert_foreign_rejected" });
        }
        if out.ok {
            // a fresh vault may already hold tokens sent to the (deterministic) ATA address earlier
            let v = self.vault_balance(m);
            self.dust[m] = v;
        }
    }

    pub fn step_remove(&mut self, obs: &mut Obs, m: usize) {
        if self.glv().is_none() {
            return;
        }
        let ix = glvx::remove_glv_market_ix(&self.d, &self.k, m);
        let out = self.tx(obs, "keeper", "remove_market", &[ix], &TxOpts::default());
        if out.ok {
            self.dust[m] = 0;
            obs.probe("market_removed");
        }
    }

    // -------------------------------------------------------------------------------------------- creates

    pub fn step_create_deposit(&mut self, obs: &mut Obs, user: usize, m: usize, gm: u64, long: u64, short: u64, min_glv: u64, min_gm: u64, first_receiver: bool) -> Option<usize> {
        if self.glv().is_none() {
            return None;
        }
        let owner = self.d.users[user % N_USERS];
        let nonce = self.next_nonce();
        let receiver = first_receiver.then(gmsol_store::states::GlvDeposit::first_deposit_receiver);
        let args = glvx::GlvDepositArgs {
            owner,
            receiver,
            market: m,
            nonce,
            market_token_amount: gm,
            long_amount: long,
            short_amount: short,
            min_market_token: min_gm,
            min_glv_token: min_glv,
            execution_lamports: EXEC_LAMPORTS,
        };
        let before = self.owner_balances(&owner, m);
        let (ixs, key) = glvx::create_glv_deposit_tx(&self.d, &self.k, &args);
        let out = self.tx(obs, "user", "create_glv_deposit", &ixs, &TxOpts::default());
        if !out.ok {
            return None;
        }
        self.acts.push(Act { kind: ActionKind::Deposit, key, owner, receiver: receiver.unwrap_or(owner), market: m, to_market: m, before, escrowed: [gm, long, short, 0], state: 0, glv_amount: 0 });
        Some(self.acts.len() - 1)
    }

    pub fn step_create_withdrawal(&mut self, obs: &mut Obs, user: usize, m: usize, amount: u64, min_long: u64, min_short: u64) -> Option<usize> {
        if self.glv().is_none() || amount == 0 {
            return None;
        }
        let owner = self.d.users[user % N_USERS];
        let nonce = self.next_nonce();
        let args = glvx::GlvWithdrawalArgs { owner, market: m, nonce, glv_token_amount: amount, min_long, min_short, execution_lamports: EXEC_LAMPORTS };
        let before = self.owner_balances(&owner, m);
        let (ixs, key) = glvx::create_glv_withdrawal_tx(&self.d, &self.k, &args);
        let out = self.tx(obs, "user", "create_glv_withdrawal", &ixs, &TxOpts::default());
        if !out.ok {
            return None;
        }
        self.acts.push(Act { kind: ActionKind::Withdrawal, key, owner, receiver: owner, market: m, to_market: m, before, escrowed: [0, 0, 0, amount], state: 0, glv_amount: amount });
        Some(self.acts.len() - 1)
    }

    pub fn step_create_shift(&mut self, obs: &mut Obs, from: usize, to: usize, amount: u64, min_to: u64) -> Option<usize> {
        if self.glv().is_none() || amount == 0 {
            return None;
        }
        let nonce = self.next_nonce();
        let keeper = self.d.keeper;
        let args = glvx::GlvShiftArgs { authority: keeper, from_market: from, to_market: to, nonce, amount, min_to, execution_lamports: EXEC_LAMPORTS };
        let (ix, key) = glvx::create_glv_shift_ix(&self.d, &self.k, &args);
        let out = self.tx(obs, "keeper", "create_glv_shift", &[ix], &TxOpts::default());
        if !out.ok {
            return None;
        }
        self.acts.push(Act { kind: ActionKind::Shift, key, owner: keeper, receiver: keeper, market: from, to_market: to, before: [0; 4], escrowed: [0; 4], state: 0, glv_amount: 0 });
        Some(self.acts.len() - 1)
    }

    /// Resolve "k-th most recent live action".
    pub fn pick(&self, k: usize) -> Option<usize> {
        if self.acts.is_empty() {
            None
        } else {
            Some(self.acts.len() - 1 - (k % self.acts.len()))
        }
    }

    // -------------------------------------------------------------------------------------------- execute

    pub fn step_execute(&mut self, obs: &mut Obs, idx: usize, throw: bool, by: Who, fail_cpi: Option<u8>) {
        let a = self.acts[idx].clone();
        let signer = self.who(by);
        let ix = match a.kind {
            ActionKind::Deposit => glvx::execute_glv_deposit_ix(&self.w, &self.d, &a.key, &signer, throw, 5000),
            ActionKind::Withdrawal => glvx::execute_glv_withdrawal_ix(&self.w, &self.d, &a.key, &signer, throw, 5000),
            ActionKind::Shift => glvx::execute_glv_shift_ix(&self.w, &self.d, &a.key, &signer, throw, 5000),
        };
        let Some(ix) = ix else {
            obs.event(|| "execute noop (action or GLV unreadable)".into());
            return;
        };
        let op = match a.kind {
            ActionKind::Deposit => "execute_glv_deposit",
            ActionKind::Withdrawal => "execute_glv_withdrawal",
            ActionKind::Shift => "execute_glv_shift",
        };
        let state_before = glvx::action_state_of(&self.w, &a.key, a.kind).unwrap_or(255);
        if state_before != 0 {
            obs.fault("duplicate_or_late_execute");
        }
        if by != Who::Keeper {
            obs.fault("byzantine_executor");
        }
        let pre = self.w.clone();
        let pre_balances = self.balances();
        let pre_supply = self.glv_supply();
        let opts = TxOpts { fail_cpi_at: fail_cpi.map(|n| n as u64), payer: None };
        if fail_cpi.is_some() {
            obs.fault("cpi_failure");
        }
        let out = self.tx(obs, Self::role(by), op, &[ix], &opts);
        if !out.ok {
            return;
        }
        let state_after = glvx::action_state_of(&self.w, &a.key, a.kind).unwrap_or(255);
        obs.checked("exec_once");
        if state_before != 0 || !(state_after == 1 || state_after == 2) {
            obs.violation(
                P23,
                "exec_once",
                format!("kind={:?},before={},after={}", a.kind, state_before, state_after),
                format!("execute of {} succeeded with state {} -> {}", a.key, state_before, state_after),
            );
        }
        if by != Who::Keeper {
            obs.violation(P23, "exec_auth", format!("kind={:?},by={}", a.kind, Self::role(by)), format!("execute of {} signed by a non-keeper succeeded", a.key));
        }
        self.acts[idx].state = state_after;
        let post_supply = self.glv_supply();
        if state_after == 2 {
            obs.probe("soft_cancelled");
            if self.w.clock.unix_timestamp - read_updated_at(&pre, &a) > 3600 {
                obs.fault("request_expired");
            }
            self.check_cancel_no_touch(obs, &pre, &a, pre_supply, post_supply);
            return;
        }
        match a.kind {
            ActionKind::Deposit => {
                obs.probe("deposit_completed");
                self.after_deposit(obs, &a, &pre_balances, pre_supply, post_supply, &out);
            }
            ActionKind::Withdrawal => {
                obs.probe("withdrawal_completed");
                self.after_withdrawal(obs, &pre, &a, &pre_balances, pre_supply, post_supply, &out);
            }
            ActionKind::Shift => {
                obs.probe("shift_completed");
                obs.checked("supply_conservation");
                if post_supply != pre_supply {
                    obs.violation(P45, "supply_conservation", "by=shift".into(), format!("GLV shift changed the GLV token supply {pre_supply} -> {post_supply}"));
                }
            }
        }
    }

    fn check_cancel_no_touch(&mut self, obs: &mut Obs, pre: &World, a: &Act, pre_supply: u64, post_supply: u64) {
        obs.checked("cancel_no_touch");
        let mut touched: Vec<String> = vec![];
        for m in self.glv_markets() {
            let key = self.d.markets[m].market;
            // the Market account carries its revertible buffer, so compare the committed view, not bytes
            let (a, b) = (market_logical(pre, &key), market_logical(&self.w, &key));
            if a != b {
                touched.push(format!("market{m}"));
                obs.event(|| format!("market{m} logical state before {a:?} after {b:?}"));
            }
            let mt = self.d.markets[m].market_token;
            if mint_supply(pre, &mt) != mint_supply(&self.w, &mt) {
                touched.push(format!("gm_supply{m}"));
            }
        }
        if pre.data(&self.k.glv) != self.w.data(&self.k.glv) {
            touched.push("glv".into());
        }
        if pre_supply != post_supply {
            touched.push("glv_supply".into());
        }
        if !touched.is_empty() {
            obs.violation(P23, "cancel_no_touch", format!("kind={:?},touched={}", a.kind, touched.join("+")), format!("cancelled execution of {} changed {}", a.key, touched.join(", ")));
        }
    }

    /// Oracles after a completed GLV deposit (evaluated on the post-transaction state).
    fn after_deposit(&mut self, obs: &mut Obs, a: &Act, pre_balances: &[(usize, u64)], pre_supply: u64, post_supply: u64, out: &TxOutcome) {
        let m = a.market;
        let d = self.d.clone();
        let minted = post_supply.wrapping_sub(pre_supply);
        if post_supply < pre_supply {
            obs.violation(P45, "supply_conservation", "by=deposit_burn".into(), format!("GLV deposit reduced the supply {pre_supply} -> {post_supply}"));
        }
        self.supply = post_supply;
        let rec_pre = pre_balances.iter().find(|(i, _)| *i == m).map(|x| x.1).unwrap_or(0);
        let Some(rec_post) = self.recorded(m) else {
            return;
        };
        let amt = rec_post.saturating_sub(rec_pre);
        let Some(glv) = self.glv() else {
            return;
        };
        let Some(cfg) = glv.market_config(&d.markets[m].market_token).copied() else {
            return;
        };
        let (max_amount, max_value) = (cfg.max_amount(), cfg.max_value());
        let mut scratch = self.w.clone();

        // --- caps
        obs.checked("balance_cap_amount");
        let vault_net = self.vault_balance(m).saturating_sub(self.dust[m]);
        if max_amount > 0 && (rec_post > max_amount || vault_net > max_amount) {
            obs.violation(
                P45,
                "balance_cap_amount",
                format!("market={m}"),
                format!("after GLV deposit market {m} balance recorded={rec_post} vault={vault_net} exceeds max_amount={max_amount} (was {rec_pre})"),
            );
        }
        if max_value > 0 {
            match Self::mtv(&mut scratch, &d, m, rec_post.max(1), "max_after_deposit", true) {
                Some(v) => match Self::value_of(rec_post, &v) {
                    Some(val) => {
                        obs.checked("balance_cap_value");
                        if val > bu(max_value) {
                            let lo = Self::mtv(&mut scratch, &d, m, rec_post.max(1), "max_after_deposit", false).and_then(|v| Self::value_of(rec_post, &v));
                            obs.violation(
                                P45,
                                "balance_cap_value",
                                format!("market={m},min_value_within={}", lo.as_ref().map(|l| *l <= bu(max_value)).unwrap_or(false)),
                                format!("after GLV deposit market {m} balance {rec_post} is worth {val} (maximised; minimised {lo:?}) > max_value={max_value}"),
                            );
                        }
                    }
                    None => obs.probe("cap_value_unevaluable"),
                },
                None => obs.probe("cap_value_unevaluable"),
            }
        }

        // --- pricing: minted == usd_to_amount(value_min(amt), glv_value_max(pre balances), pre_supply)
        let v_max = Self::glv_value(&mut scratch, &d, pre_balances, true);
        let r_min = if amt == 0 {
            Some(BigUint::from(0u32))
        } else {
            Self::mtv(&mut scratch, &d, m, amt, "max_after_deposit", false).and_then(|v| Self::value_of(amt, &v))
        };
        match (v_max, r_min) {
            (Some(v_max), Some(r_min)) => {
                let zero = BigUint::from(0u32);
                let expected = if pre_supply == 0 && v_max == zero {
                    Some(&r_min / bu(DIVISOR))
                } else if pre_supply == 0 {
                    Some((&v_max + &r_min) / bu(DIVISOR))
                } else if v_max == zero {
                    None
                } else {
                    Some(bu(pre_supply as u128) * &r_min / &v_max)
                };
                obs.checked("deposit_pricing");
                let first = pre_supply == 0;
                match expected {
                    Some(e) if e == bu(minted as u128) => {}
                    Some(e) => {
                        // which valuation would explain it?
                        let v_min = Self::glv_value(&mut scratch, &d, pre_balances, false);
                        let alt = v_min.as_ref().and_then(|vm| if pre_supply > 0 && *vm != zero { Some(bu(pre_supply as u128) * &r_min / vm) } else { None });
                        let generous = bu(minted as u128) > e;
                        obs.violation(
                            P45,
                            "deposit_pricing",
                            format!("first={first},more_than_expected={generous},matches_min_valuation={}", alt.as_ref().map(|x| *x == bu(minted as u128)).unwrap_or(false)),
                            format!(
                                "GLV deposit into market {m}: minted {minted}, expected {e} = floor(supply {pre_supply} * received_min {r_min} / glv_value_max {v_max}); glv_value_min {v_min:?}; pricing event {:?}",
                                glvx::parse_glv_pricing(out)
                            ),
                        );
                    }
                    None => {
                        obs.violation(P45, "deposit_pricing", "zero_value_nonzero_supply".into(), format!("GLV deposit completed although glv_value_max is 0 with supply {pre_supply}"));
                    }
                }
            }
            _ => obs.probe("deposit_pricing_unevaluable"),
        }
    }

    /// Oracles after a completed GLV withdrawal (reference computed on the pre-transaction state).
    fn after_withdrawal(&mut self, obs: &mut Obs, pre: &World, a: &Act, pre_balances: &[(usize, u64)], pre_supply: u64, post_supply: u64, out: &TxOutcome) {
        let m = a.market;
        let d = self.d.clone();
        self.supply = post_supply;
        obs.checked("supply_conservation");
        if pre_supply.checked_sub(post_supply) != Some(a.glv_amount) {
            obs.violation(
                P45,
                "supply_conservation",
                "by=withdrawal".into(),
                format!("GLV withdrawal of {} GLV tokens changed the supply {pre_supply} -> {post_supply}", a.glv_amount),
            );
        }
        let rec_pre = pre_balances.iter().find(|(i, _)| *i == m).map(|x| x.1).unwrap_or(0);
        let rec_post = self.recorded(m).unwrap_or(0);
        let taken = rec_pre.saturating_sub(rec_post);
        let mut scratch = pre.clone();
        let v_min = Self::glv_value(&mut scratch, &d, pre_balances, false);
        let pool = Self::mtv(&mut scratch, &d, m, 1, "max_after_withdrawal", true);
        match (v_min, pool) {
            (Some(v_min), Some(pool)) if pool.pool_value > 0 && pre_supply > 0 => {
                let val = bu(a.glv_amount as u128) * &v_min / bu(pre_supply as u128);
                let expected = bu(pool.supply) * &val / bu(pool.pool_value as u128);
                obs.checked("withdrawal_pricing");
                if expected != bu(taken as u128) {
                    let v_max = Self::glv_value(&mut scratch, &d, pre_balances, true);
                    let alt = v_max.as_ref().map(|vm| bu(pool.supply) * (bu(a.glv_amount as u128) * vm / bu(pre_supply as u128)) / bu(pool.pool_value as u128));
                    obs.violation(
                        P45,
                        "withdrawal_pricing",
                        format!("more_than_expected={},matches_max_valuation={}", bu(taken as u128) > expected, alt.as_ref().map(|x| *x == bu(taken as u128)).unwrap_or(false)),
                        format!(
                            "GLV withdrawal from market {m}: {taken} market tokens left the GLV for {} GLV tokens, expected {expected} (glv_value_min {v_min}, supply {pre_supply}, pool_max {} / gm supply {}); glv_value_max {v_max:?}; pricing event {:?}",
                            a.glv_amount,
                            pool.pool_value,
                            pool.supply,
                            glvx::parse_glv_pricing(out)
                        ),
                    );
                }
            }
            _ => obs.probe("withdrawal_pricing_unevaluable"),
        }
    }

    // -------------------------------------------------------------------------------------------- close

    pub fn step_close(&mut self, obs: &mut Obs, idx: usize, by: CloseBy) {
        let a = self.acts[idx].clone();
        let executor = match by {
            CloseBy::Owner => a.owner,
            CloseBy::Keeper => self.d.keeper,
            CloseBy::Stranger => self.stranger,
        };
        let ix = match a.kind {
            ActionKind::Deposit => glvx::close_glv_deposit_ix(&self.w, &self.d, &a.key, &executor),
            ActionKind::Withdrawal => glvx::close_glv_withdrawal_ix(&self.w, &self.d, &a.key, &executor),
            ActionKind::Shift => glvx::close_glv_shift_ix(&self.w, &self.d, &a.key, &executor),
        };
        let Some(ix) = ix else {
            self.acts.remove(idx);
            return;
        };
        let op = match a.kind {
            ActionKind::Deposit => "close_glv_deposit",
            ActionKind::Withdrawal => "close_glv_withdrawal",
            ActionKind::Shift => "close_glv_shift",
        };
        let role = match by {
            CloseBy::Owner => "owner",
            CloseBy::Keeper => "keeper",
            CloseBy::Stranger => "stranger",
        };
        let state = glvx::action_state_of(&self.w, &a.key, a.kind).unwrap_or(255);
        match (by, state) {
            (CloseBy::Stranger, _) => obs.fault("byzantine_closer"),
            (CloseBy::Keeper, 0) if a.kind != ActionKind::Shift => obs.fault("keeper_closes_pending"),
            (CloseBy::Keeper, _) if a.kind != ActionKind::Shift => obs.fault("owner_crash_keeper_closes"),
            (CloseBy::Owner, 0) => obs.fault("owner_cancels_pending"),
            _ => {}
        }
        let is_owner = executor == a.owner;
        let supply_before = self.glv_supply();
        let mk = self.d.markets[a.market].clone();
        let toks = [mk.market_token, self.d.tokens[mk.long].mint, self.d.tokens[mk.short].mint];
        let glv_dest_owner = if a.kind == ActionKind::Deposit { a.receiver } else { a.owner };
        let glv_token = self.k.glv_token;
        let read = |w: &World| -> ([u64; 4], [u64; 4]) {
            let esc = [
                token_balance(w, &ata(&a.key, &toks[0])),
                token_balance(w, &ata(&a.key, &toks[1])),
                token_balance(w, &ata(&a.key, &toks[2])),
                token_balance(w, &ata_2022(&a.key, &glv_token)),
            ];
            let own = [
                token_balance(w, &ata(&a.owner, &toks[0])),
                token_balance(w, &ata(&a.owner, &toks[1])),
                token_balance(w, &ata(&a.owner, &toks[2])),
                token_balance(w, &ata_2022(&glv_dest_owner, &glv_token)),
            ];
            (esc, own)
        };
        let (esc0, own0) = read(&self.w);
        let out = self.tx(obs, role, op, &[ix], &TxOpts::default());
        if !out.ok {
            return;
        }
        obs.checked("close_auth");
        let allowed = match by {
            _ if is_owner => true,
            CloseBy::Keeper => state != 0,
            _ => false,
        };
        if !allowed {
            obs.violation(P23, "close_auth", format!("kind={:?},by={role},state={state}", a.kind), format!("{role} closed {} in state {state}", a.key));
        }
        if self.glv_supply() != supply_before {
            obs.violation(P45, "supply_conservation", "by=close".into(), format!("closing {} changed the GLV token supply", a.key));
        }
        // escrow goes home
        if a.kind != ActionKind::Shift {
            let (esc1, own1) = read(&self.w);
            obs.checked("escrow_home");
            let gone = self.w.get(&a.key).is_none();
            let mut bad: Vec<String> = vec![];
            if !gone {
                bad.push("account_left".into());
            }
            for i in 0..4 {
                if esc1[i] != 0 {
                    bad.push(format!("escrow{i}_not_empty"));
                }
                if own1[i] as u128 != own0[i] as u128 + esc0[i] as u128 {
                    bad.push(format!("token{i}_not_home"));
                }
            }
            if state != 1 && esc0 != a.escrowed {
                bad.push("escrow_differs_from_created".into());
            }
            if !bad.is_empty() {
                obs.violation(
                    P23,
                    "escrow_home",
                    format!("kind={:?},state={state},what={}", a.kind, bad.join("+")),
                    format!("close of {} (state {state}): escrow (GM,long,short,GLV) before {esc0:?} after {esc1:?}; owner before {own0:?} after {own1:?}; escrowed at creation {:?}", a.key, a.escrowed),
                );
            }
        }
        self.acts.remove(idx);
    }

    // -------------------------------------------------------------------------------------------- plain market ops

    pub fn step_market_deposit(&mut self, obs: &mut Obs, user: usize, m: usize, long: u64, short: u64) {
        let owner = self.d.users[user % N_USERS];
        let nonce = self.next_nonce();
        let (ixs, dep) = ex::create_deposit_tx(
            &self.d,
            &ex::DepositArgs {
                owner,
                market: m,
                nonce,
                long_amount: long,
                short_amount: short,
                min_market_token: 0,
                execution_lamports: EXEC_LAMPORTS,
                initial_long_token: None,
                initial_short_token: None,
                long_path: vec![],
                short_path: vec![],
            },
        );
        if !self.tx(obs, "user", "create_deposit", &ixs, &TxOpts::default()).ok {
            return;
        }
        if let Some(ix) = ex::execute_deposit_ix(&self.w, &self.d, &dep, false, 5000) {
            self.tx(obs, "keeper", "execute_deposit", &[ix], &TxOpts::default());
        }
        if let Some(ix) = ex::close_deposit_ix(&self.w, &self.d, &dep, &owner) {
            self.tx(obs, "owner", "close_deposit", &[ix], &TxOpts::default());
        }
    }

    pub fn step_market_withdraw(&mut self, obs: &mut Obs, user: usize, m: usize, bps: u16) {
        let owner = self.d.users[user % N_USERS];
        let bal = token_balance(&self.w, &ata(&owner, &self.d.markets[m].market_token));
        let amount = (bal as u128 * bps.min(10_000) as u128 / 10_000) as u64;
        if amount == 0 {
            return;
        }
        let nonce = self.next_nonce();
        let (ixs, wd) = ex::create_withdrawal_tx(
            &self.d,
            &ex::WithdrawalArgs {
                owner,
                market: m,
                nonce,
                market_token_amount: amount,
                min_long: 0,
                min_short: 0,
                execution_lamports: EXEC_LAMPORTS,
                final_long_token: None,
                final_short_token: None,
                long_path: vec![],
                short_path: vec![],
            },
        );
        if !self.tx(obs, "user", "create_withdrawal", &ixs, &TxOpts::default()).ok {
            return;
        }
        if let Some(ix) = ex::execute_withdrawal_ix(&self.w, &self.d, &wd, false, 5000) {
            self.tx(obs, "keeper", "execute_withdrawal", &[ix], &TxOpts::default());
        }
        if let Some(ix) = ex::close_withdrawal_ix(&self.w, &self.d, &wd, &owner) {
            self.tx(obs, "owner", "close_withdrawal", &[ix], &TxOpts::default());
        }
    }

    pub fn step_dust(&mut self, obs: &mut Obs, user: usize, m: usize, amount: u64) {
        let owner = self.d.users[user % N_USERS];
        let mt = self.d.markets[m].market_token;
        let vault = glvx::glv_vault(&self.k.glv, &mt);
        if self.w.get(&vault).is_none() {
            return;
        }
        let ix = spl_token::instruction::transfer(&spl_token::ID, &ata(&owner, &mt), &vault, &owner, &[], amount).unwrap();
        let out = self.tx(obs, "user", "dust_transfer", &[ix], &TxOpts::default());
        if out.ok {
            obs.fault("dust_into_vault");
            self.dust[m] = self.dust[m].saturating_add(amount);
        }
    }

    pub fn step_open_position(&mut self, obs: &mut Obs, user: usize, m: usize, is_long: bool, size_usd: u32, collateral_usd: u32) {
        let owner = self.d.users[user % N_USERS];
        let nonce = self.next_nonce();
        // collateral in the short token (USDC-like, 6 decimals)
        let (ixs, order, _) = ex::create_order_tx(
            &self.d,
            &ex::OrderArgs {
                owner,
                market: m,
                nonce,
                kind: ex::OrderKind::MarketIncrease,
                is_long,
                is_collateral_long: false,
                collateral_delta: collateral_usd as u64 * 1_000_000,
                size_delta: size_usd as u128 * USD,
                execution_lamports: EXEC_LAMPORTS,
                min_output: None,
                trigger_price: None,
                acceptable_price: None,
                valid_from_ts: None,
                initial_collateral_token: None,
                final_output_token: None,
                swap_path: vec![],
                swap_type: None,
            },
        );
        if !self.tx(obs, "user", "create_order", &ixs, &TxOpts::default()).ok {
            return;
        }
        let ei = self.event_index;
        if let Some(ixs) = ex::execute_order_tx(&self.w, &self.d, &order, false, 5000, ei) {
            let out = self.tx(obs, "keeper", "execute_order", &ixs, &TxOpts::default());
            if out.ok {
                obs.probe("position_opened");
            }
        }
        if let Some(ix) = ex::close_order_ix(&self.w, &self.d, &order, &owner) {
            self.tx(obs, "owner", "close_order", &[ix], &TxOpts::default());
        }
    }

    // -------------------------------------------------------------------------------------------- fork probes

    /// Run create / execute(throw) / close of a GLV deposit; returns (market tokens added to the GLV, GLV tokens minted).
    fn full_deposit(&mut self, obs: &mut Obs, user: usize, m: usize, gm: u64, long: u64, short: u64) -> Option<(u64, u64)> {
        let rec0 = self.recorded(m)?;
        let owner = self.d.users[user % N_USERS];
        let g0 = token_balance(&self.w, &ata_2022(&owner, &self.k.glv_token));
        let idx = self.step_create_deposit(obs, user, m, gm, long, short, 0, 0, false)?;
        self.step_execute(obs, idx, true, Who::Keeper, None);
        if self.acts.get(idx).map(|a| a.state) != Some(1) {
            return None;
        }
        self.step_close(obs, idx, CloseBy::Owner);
        let rec1 = self.recorded(m)?;
        let g1 = token_balance(&self.w, &ata_2022(&owner, &self.k.glv_token));
        Some((rec1.checked_sub(rec0)?, g1.checked_sub(g0)?))
    }

    pub fn probe_round_trip(&self, obs: &mut Obs, user: usize, m: usize, gm: u64, long: u64, short: u64) {
        let mut f = self.clone();
        f.forked = true;
        f.view_cross_check(obs);
        // value recorded in the GLV while no GLV token exists (left behind by rounding of earlier withdrawals)
        let orphaned = f.glv_supply() == 0 && f.balances().iter().any(|(_, b)| *b > 0);
        let Some((put_in, minted)) = f.full_deposit(obs, user, m, gm, long, short) else {
            obs.probe("round_trip_deposit_failed");
            return;
        };
        if obs.should_stop() {
            return;
        }
        if minted == 0 {
            obs.probe("round_trip_minted_zero");
            return;
        }
        let rec1 = f.recorded(m).unwrap_or(0);
        let Some(idx) = f.step_create_withdrawal(obs, user, m, minted, 0, 0) else {
            obs.probe("round_trip_withdraw_create_failed");
            return;
        };
        f.step_execute(obs, idx, true, Who::Keeper, None);
        if f.acts.get(idx).map(|a| a.state) != Some(1) {
            obs.probe("round_trip_withdraw_failed");
            return;
        }
        let rec2 = f.recorded(m).unwrap_or(0);
        let taken = rec1.saturating_sub(rec2);
        obs.checked("round_trip");
        obs.probe("round_trip_done");
        if taken > put_in {
            obs.violation(
                P45,
                "round_trip",
                format!("with_tokens={},orphaned_value={orphaned}", long > 0 || short > 0),
                format!("market {m}: GLV deposit added {put_in} market tokens and minted {minted} GLV tokens; withdrawing them at once took {taken} market tokens out (GLV supply was zero with recorded balances before: {orphaned})"),
            );
        }
    }

    /// `get_glv_token_value` (the program's own view) against the sum recomputed from
    /// `get_market_token_value`; a mismatch is counted as a probe, not a violation (the statement does not
    /// cover the view instruction).
    pub fn view_cross_check(&mut self, obs: &mut Obs) {
        let Some(glv) = self.glv() else {
            return;
        };
        let d = self.d.clone();
        let balances = self.balances();
        let supply = self.glv_supply();
        if supply == 0 {
            // the view divides by the supply
            return;
        }
        for maximize in [true, false] {
            let mut scratch = self.w.clone();
            let out = scratch.process(glvx::get_glv_token_value_ix(&d, &self.k, &glv, supply.max(1), maximize));
            let view = if out.ok { glvx::parse_glv_token_value(&out).map(|e| e.glv_value) } else { None };
            let mine = Self::glv_value(&mut scratch, &d, &balances, maximize).and_then(|v| simcore::big::to_u128(&v));
            match (view, mine) {
                (Some(a), Some(b)) if a == b => obs.probe("glv_value_view_agrees"),
                (Some(_), Some(_)) => obs.probe("glv_value_view_mismatch"),
                _ => obs.probe("glv_value_view_unevaluable"),
            }
        }
    }

    pub fn probe_cap_edge(&self, obs: &mut Obs, user: usize, m: usize, gm: u64, mode: u8) {
        let mut f = self.clone();
        f.forked = true;
        let Some(rec) = f.recorded(m) else {
            return;
        };
        let owner = f.d.users[user % N_USERS];
        let have = token_balance(&f.w, &ata(&owner, &f.d.markets[m].market_token));
        let gm = gm.min(have);
        if gm == 0 {
            return;
        }
        let Some(post) = rec.checked_add(gm) else {
            return;
        };
        let d = f.d.clone();
        let (max_amount, max_value): (u64, u128) = match mode % 5 {
            0 => (post - 1, 0),
            1 => (post, 0),
            k => {
                let mut scratch = f.w.clone();
                let hi = Self::mtv(&mut scratch, &d, m, post, "max_after_deposit", true).and_then(|v| Self::value_of(post, &v)).and_then(|v| simcore::big::to_u128(&v));
                let lo = Self::mtv(&mut scratch, &d, m, post, "max_after_deposit", false).and_then(|v| Self::value_of(post, &v)).and_then(|v| simcore::big::to_u128(&v));
                let (Some(hi), Some(lo)) = (hi, lo) else {
                    obs.probe("cap_edge_unevaluable");
                    return;
                };
                if hi > lo {
                    obs.probe("cap_edge_spread_window");
                }
                match k {
                    2 => (0, lo.max(1)),
                    3 => (0, (lo + (hi - lo) / 2).max(1)),
                    _ => (0, hi.max(1)),
                }
            }
        };
        let ix = glvx::update_glv_market_config_ix(&f.d, &f.k, m, Some(max_amount), Some(max_value));
        if !f.tx(obs, "keeper", "update_market_config", &[ix], &TxOpts::default()).ok {
            return;
        }
        match f.full_deposit(obs, user, m, gm, 0, 0) {
            Some(_) => obs.probe("cap_edge_accepted"),
            None => obs.probe("cap_edge_rejected"),
        }
    }

    // -------------------------------------------------------------------------------------------- dispatcher

    pub fn apply(&mut self, obs: &mut Obs, step: &Step) {
        let members = self.glv_markets();
        // GLV member #m (resolved at execution time); plain market ops address the compatible markets.
        let gmk = |m: u8| -> Option<usize> { if members.is_empty() { None } else { Some(members[m as usize % members.len()]) } };
        let cm = |m: u8| (m as usize) % N_COMPAT;
        match step {
            Step::Advance { secs, repost } => {
                let secs = *secs as i64;
                self.w.advance((secs as u64 * 5 / 2).max(1), secs);
                obs.sim_seconds += secs as u64;
                if secs >= 3600 {
                    obs.fault("clock_jump");
                }
                if *repost {
                    self.post_prices(obs);
                } else {
                    obs.fault("stale_prices");
                }
                obs.event(|| format!("advance {secs}s repost={repost}"));
            }
            Step::SetPrice { token, price_e6, spread_bps } => {
                let t = *token as usize % N_TOKENS;
                self.px[t] = ((*price_e6).max(1), *spread_bps);
                let now = self.w.clock.unix_timestamp;
                let ix = ex::update_feed_ix(&self.d, t, &report(&self.d, t, now, self.px[t].0, self.px[t].1), false);
                self.tx(obs, "keeper", "update_feed", &[ix], &TxOpts::default());
            }
            Step::InitGlv { mask } => self.step_init(obs, *mask),
            Step::Insert { m, by, market_of } => {
                let m = *m as usize % N_MARKETS;
                self.step_insert(obs, m, *by, market_of.map(|o| o as usize % N_MARKETS));
            }
            Step::Remove { m } => {
                if let Some(m) = gmk(*m) {
                    self.step_remove(obs, m);
                }
            }
            Step::Config { m, max_amount, max_value } => {
                if let Some(m) = gmk(*m) {
                    let ix = glvx::update_glv_market_config_ix(&self.d, &self.k, m, *max_amount, max_value.map(|v| v.get()));
                    self.tx(obs, "keeper", "update_market_config", &[ix], &TxOpts::default());
                }
            }
            Step::Toggle { m, enable } => {
                if let Some(m) = gmk(*m) {
                    let ix = glvx::toggle_glv_market_flag_ix(&self.d, &self.k, m, "is_deposit_allowed", *enable);
                    self.tx(obs, "keeper", "toggle_flag", &[ix], &TxOpts::default());
                }
            }
            Step::GlvConfig { min_first, interval, impact, min_value } => {
                if self.glv().is_some() {
                    let params = gmsol_store::states::glv::UpdateGlvParams {
                        min_tokens_for_first_deposit: *min_first,
                        shift_min_interval_secs: *interval,
                        shift_max_price_impact_factor: impact.map(|v| v.get()),
                        shift_min_value: min_value.map(|v| v.get()),
                    };
                    let ix = glvx::update_glv_config_ix(&self.d, &self.k, params);
                    self.tx(obs, "keeper", "update_glv_config", &[ix], &TxOpts::default());
                }
            }
            Step::CreateDeposit { user, m, gm, long, short, min_glv, min_gm, first_receiver } => {
                if let Some(m) = gmk(*m) {
                    self.step_create_deposit(obs, *user as usize, m, *gm, *long, *short, *min_glv, *min_gm, *first_receiver);
                }
            }
            Step::CreateWithdrawal { user, m, bps, min_long, min_short } => {
                let owner = self.d.users[*user as usize % N_USERS];
                let bal = token_balance(&self.w, &ata_2022(&owner, &self.k.glv_token));
                let amount = (bal as u128 * (*bps).min(10_000) as u128 / 10_000) as u64;
                if let Some(m) = gmk(*m) {
                    self.step_create_withdrawal(obs, *user as usize, m, amount, *min_long, *min_short);
                }
            }
            Step::CreateShift { from, to, bps, min_to } => {
                // `to` is an offset from `from` among the other members (same market only when the GLV has one)
                let to_idx = if members.len() > 1 {
                    let fi = *from as usize % members.len();
                    Some(members[(fi + 1 + (*to as usize % (members.len() - 1))) % members.len()])
                } else {
                    gmk(*to)
                };
                if let (Some(from), Some(to)) = (gmk(*from), to_idx) {
                    let bal = self.recorded(from).unwrap_or(0);
                    let amount = (bal as u128 * (*bps).min(10_000) as u128 / 10_000) as u64;
                    self.step_create_shift(obs, from, to, amount, *min_to);
                }
            }
            Step::Execute { k, throw, by, fail_cpi } => {
                if let Some(idx) = self.pick(*k as usize) {
                    self.step_execute(obs, idx, *throw, *by, *fail_cpi);
                }
            }
            Step::Close { k, by } => {
                if let Some(idx) = self.pick(*k as usize) {
                    self.step_close(obs, idx, *by);
                }
            }
            Step::MarketDeposit { user, m, long, short } => self.step_market_deposit(obs, *user as usize, cm(*m), *long, *short),
            Step::MarketWithdraw { user, m, bps } => self.step_market_withdraw(obs, *user as usize, cm(*m), *bps),
            Step::Dust { user, m, amount } => {
                if let Some(m) = gmk(*m) {
                    self.step_dust(obs, *user as usize, m, *amount);
                }
            }
            Step::OpenPosition { user, m, is_long, size_usd, collateral_usd } => self.step_open_position(obs, *user as usize, cm(*m), *is_long, *size_usd, *collateral_usd),
            Step::RoundTrip { user, m, gm, long, short } => {
                if let Some(m) = gmk(*m) {
                    self.probe_round_trip(obs, *user as usize, m, *gm, *long, *short);
                }
            }
            Step::CapEdge { user, m, gm, mode } => {
                if let Some(m) = gmk(*m) {
                    self.probe_cap_edge(obs, *user as usize, m, *gm, *mode);
                }
            }
        }
    }
}

fn read_updated_at(w: &World, a: &Act) -> i64 {
    use gmsol_store::states::common::action::Action;
    match a.kind {
        ActionKind::Deposit => read_pod::<gmsol_store::states::GlvDeposit>(w, &a.key).map(|x| x.header().updated_at()),
        ActionKind::Withdrawal => read_pod::<gmsol_store::states::glv::GlvWithdrawal>(w, &a.key).map(|x| x.header().updated_at()),
        ActionKind::Shift => read_pod::<gmsol_store::states::glv::GlvShift>(w, &a.key).map(|x| x.header().updated_at()),
    }
    .unwrap_or(i64::MAX)
}

/// The committed logical state of a market: every pool (long, short), every clock, token balances,
/// funding factor and the action counters.
pub fn market_logical(w: &World, key: &Pubkey) -> Option<Vec<i128>> {
    use gmsol_model::{Balance, ClockKind, PoolKind};
    let m: gmsol_store::states::Market = read_pod(w, key)?;
    let mut v: Vec<i128> = vec![];
    for kind in [
        PoolKind::Primary,
        PoolKind::SwapImpact,
        PoolKind::ClaimableFee,
        PoolKind::OpenInterestForLong,
        PoolKind::OpenInterestForShort,
        PoolKind::OpenInterestInTokensForLong,
        PoolKind::OpenInterestInTokensForShort,
        PoolKind::PositionImpact,
        PoolKind::BorrowingFactor,
        PoolKind::FundingAmountPerSizeForLong,
        PoolKind::FundingAmountPerSizeForShort,
        PoolKind::ClaimableFundingAmountPerSizeForLong,
        PoolKind::ClaimableFundingAmountPerSizeForShort,
        PoolKind::CollateralSumForLong,
        PoolKind::CollateralSumForShort,
        PoolKind::TotalBorrowing,
    ] {
        let p = m.pool(kind)?;
        v.push(p.long_amount().ok()? as i128);
        v.push(p.short_amount().ok()? as i128);
    }
    for kind in [ClockKind::PriceImpactDistribution, ClockKind::Borrowing, ClockKind::Funding, ClockKind::AdlForLong, ClockKind::AdlForShort] {
        v.push(m.clock(kind)? as i128);
    }
    let st = m.state();
    v.push(st.long_token_balance_raw() as i128);
    v.push(st.short_token_balance_raw() as i128);
    v.push(st.funding_factor_per_second());
    v.push(st.trade_count() as i128);
    Some(v)
}

// ------------------------------------------------------------------------------------------------ scenario

pub struct GlvHistory {
    pub focus: &'static str,
}

fn gen_val(r: &mut Rng, kind: u64) -> Val {
    match kind {
        0 => Val { m: r.range(1, 1000), e: r.range(0, 18) as u8 },             // tiny
        1 => Val { m: r.range(1, 300_000), e: 20 },                             // $1 .. $300k
        2 => Val { m: u64::MAX, e: 19 },                                        // huge (saturates near u128::MAX)
        _ => Val { m: 0, e: 0 },
    }
}

fn gen_amount(r: &mut Rng) -> u64 {
    match r.below(10) {
        0 => r.range(1, 1000),
        1 => r.log_u64(60_000_000_000_000),
        _ => r.range(1_000_000_000, 20_000_000_000_000),
    }
}

impl Scenario for GlvHistory {
    type Cfg = Cfg;
    type Step = Step;

    fn name(&self) -> &'static str {
        "glv_history"
    }

    fn generate(&self, seed: u64, run: u64, _tier: Tier, _focus: &str) -> (Cfg, Vec<Step>) {
        let mut rc = Rng::derive(seed, run, "cfg");
        let batch = match rc.below(8) {
            0..=3 => Batch::Plain,
            4..=6 => Batch::Faults,
            _ => Batch::Misconfig,
        };
        let n_markets = rc.range(2, 4) as u8;
        let cfg = Cfg {
            batch,
            n_markets,
            spread_bps: *rc.pick(&[0u16, 1, 2, 5, 10, 30, 100]),
            with_positions: rc.chance(1, 3),
        };
        let mut r = Rng::derive(seed, run, "plan");
        let mut steps: Vec<Step> = vec![];
        let nm = n_markets as u64;
        // prelude
        if cfg.spread_bps != 2 {
            for t in 0..N_TOKENS {
                steps.push(Step::SetPrice { token: t as u8, price_e6: INITIAL_PRICE_E6[t], spread_bps: cfg.spread_bps });
            }
        }
        if cfg.with_positions {
            for _ in 0..r.range(1, 3) {
                steps.push(Step::OpenPosition {
                    user: r.below(3) as u8,
                    m: r.below(nm) as u8,
                    is_long: r.bool(),
                    size_usd: r.range(500, 20_000) as u32,
                    collateral_usd: r.range(500, 5_000) as u32,
                });
            }
        }
        let mut mask = (r.range(1, (1 << nm) - 1)) as u8;
        if r.chance(2, 3) {
            mask = ((1u16 << nm) - 1) as u8;
        }
        if batch != Batch::Plain && r.chance(1, 5) {
            steps.push(Step::InitGlv { mask: mask | *r.pick(&[0x40u8, 0x80, 0xc0]) });
        }
        steps.push(Step::InitGlv { mask });
        for m in 0..nm {
            if r.chance(9, 10) {
                steps.push(Step::Toggle { m: m as u8, enable: true });
            }
        }
        let len = if r.chance(15, 100) { r.range(60, 160) } else { r.range(5, 50) };
        let faults = batch == Batch::Faults;
        let misconfig = batch == Batch::Misconfig;
        while (steps.len() as u64) < len {
            let w = r.below(100);
            match w {
                0..=27 => {
                    // GLV deposit flow
                    let kind = r.below(10);
                    let (gm, long, short) = match kind {
                        0..=4 => (gen_amount(&mut r), 0, 0),
                        5..=6 => (0, r.range(1_000_000, 8_000_000_000), r.range(0, 1) * r.range(1_000, 1_500_000_000)),
                        7 => (0, 0, r.range(1_000, 1_500_000_000)),
                        _ => (gen_amount(&mut r), r.range(0, 1) * r.range(1_000_000, 5_000_000_000), r.range(1_000, 1_000_000_000)),
                    };
                    let min_glv = if r.chance(1, 6) { u64::MAX / 2 } else { 0 };
                    let throw = r.chance(1, 3);
                    steps.push(Step::CreateDeposit {
                        user: r.below(3) as u8,
                        m: r.below(nm) as u8,
                        gm,
                        long,
                        short,
                        min_glv,
                        min_gm: if r.chance(1, 12) { u64::MAX / 2 } else { 0 },
                        first_receiver: misconfig && r.chance(1, 3),
                    });
                    push_flow(&mut r, &mut steps, faults, throw);
                }
                28..=42 => {
                    steps.push(Step::CreateWithdrawal {
                        user: r.below(3) as u8,
                        m: r.below(nm) as u8,
                        bps: *r.pick(&[1u16, 100, 1000, 2500, 5000, 10_000, 10_000]),
                        min_long: if r.chance(1, 6) { u64::MAX / 2 } else { 0 },
                        min_short: 0,
                    });
                    let throw = r.chance(1, 3);
                    push_flow(&mut r, &mut steps, faults, throw);
                }
                43..=50 => {
                    let from = r.below(nm) as u8;
                    let to = r.below(nm) as u8;
                    steps.push(Step::CreateShift { from, to, bps: *r.pick(&[10u16, 1000, 5000, 10_000]), min_to: if r.chance(1, 6) { u64::MAX / 2 } else { 0 } });
                    let throw = r.chance(1, 3);
                    push_flow(&mut r, &mut steps, faults, throw);
                }
                51..=58 => {
                    let t = *r.pick(&[0u8, 0, 1, 2, 3, 4]);
                    let base = INITIAL_PRICE_E6[t as usize];
                    let pct = r.range(70, 140);
                    steps.push(Step::SetPrice { token: t, price_e6: (base as u128 * pct as u128 / 100) as u64, spread_bps: *r.pick(&[0u16, 1, 2, 5, 10, 30, 100, 300]) });
                }
                59..=64 => {
                    let secs = match r.below(10) {
                        0 if faults => r.range(3500, 4000) as u32,
                        1 => r.range(100, 119) as u32,
                        _ => r.range(0, 60) as u32,
                    };
                    steps.push(Step::Advance { secs, repost: !(faults && r.chance(1, 8)) });
                }
                65..=72 => {
                    let kind = if misconfig { r.below(4) } else { *r.pick(&[1u64, 1, 1, 0, 2, 3]) };
                    let max_amount = match r.below(6) {
                        0 => None,
                        1 => Some(0),
                        2 => Some(r.range(1, 1_000_000)),
                        3 => Some(u64::MAX),
                        _ => Some(r.range(1_000_000_000_000, 200_000_000_000_000)),
                    };
                    let max_value = if r.chance(1, 5) { None } else { Some(gen_val(&mut r, kind)) };
                    steps.push(Step::Config { m: r.below(nm) as u8, max_amount, max_value });
                }
                73..=75 => steps.push(Step::Toggle { m: r.below(nm) as u8, enable: r.chance(4, 5) }),
                76..=79 => {
                    let m = if r.chance(1, 2) { r.range(N_COMPAT as u64, N_MARKETS as u64 - 1) } else { r.below(N_COMPAT as u64) } as u8;
                    let by = if faults && r.chance(1, 5) { *r.pick(&[Who::Stranger, Who::User(0)]) } else { Who::Keeper };
                    let market_of = if faults && r.chance(1, 4) { Some(r.below(N_MARKETS as u64) as u8) } else { None };
                    steps.push(Step::Insert { m, by, market_of });
                }
                80..=81 => {
                    let m = r.below(nm) as u8;
                    if r.chance(1, 2) {
                        steps.push(Step::Toggle { m, enable: false });
                    }
                    steps.push(Step::Remove { m });
                }
                82..=83 => {
                    steps.push(Step::GlvConfig {
                        min_first: if misconfig && r.chance(1, 2) { Some(r.range(0, 1_000_000_000)) } else { None },
                        interval: Some(*r.pick(&[0u32, 0, 1, 30, 3600])),
                        impact: if r.chance(1, 2) { Some(*r.pick(&[Val { m: 0, e: 0 }, Val { m: 1, e: 16 }, Val { m: 1, e: 18 }, Val { m: 1, e: 20 }])) } else { None },
                        min_value: if r.chance(1, 3) { let k = r.below(3); Some(gen_val(&mut r, k)) } else { None },
                    });
                }
                84..=87 => {
                    if r.chance(1, 2) {
                        steps.push(Step::MarketDeposit { user: r.below(3) as u8, m: r.below(nm) as u8, long: r.range(0, 1) * r.range(1_000_000, 20_000_000_000), short: r.range(1_000, 3_000_000_000) });
                    } else {
                        steps.push(Step::MarketWithdraw { user: r.below(3) as u8, m: r.below(nm) as u8, bps: *r.pick(&[10u16, 500, 3000]) });
                    }
                }
                88..=89 => {
                    if faults || misconfig {
                        steps.push(Step::Dust { user: r.below(3) as u8, m: r.below(nm) as u8, amount: r.log_u64(1_000_000_000_000) });
                    } else {
                        steps.push(Step::Advance { secs: r.range(0, 30) as u32, repost: true });
                    }
                }
                90..=95 => {
                    let kind = r.below(4);
                    let (gm, long, short) = match kind {
                        0 | 1 => (gen_amount(&mut r), 0, 0),
                        2 => (0, r.range(1_000_000, 8_000_000_000), r.range(1_000, 1_500_000_000)),
                        _ => (gen_amount(&mut r), 0, r.range(1_000, 1_500_000_000)),
                    };
                    steps.push(Step::RoundTrip { user: r.below(3) as u8, m: r.below(nm) as u8, gm, long, short });
                }
                96..=98 => steps.push(Step::CapEdge { user: r.below(3) as u8, m: r.below(nm) as u8, gm: gen_amount(&mut r), mode: r.below(5) as u8 }),
                _ => {
                    if cfg.with_positions {
                        steps.push(Step::OpenPosition { user: r.below(3) as u8, m: r.below(nm) as u8, is_long: r.bool(), size_usd: r.range(500, 20_000) as u32, collateral_usd: r.range(500, 5_000) as u32 });
                    } else {
                        steps.push(Step::Advance { secs: r.range(0, 30) as u32, repost: true });
                    }
                }
            }
        }
        (cfg, steps)
    }

    fn execute(&self, cfg: &Cfg, steps: &[Step], obs: &mut Obs) {
        chainsim::deploy::init_thread();
        let mut sim = Sim::new(base(), cfg);
        for (i, s) in steps.iter().enumerate() {
            obs.set_step(i);
            obs.event(|| format!("{s:?}"));
            sim.apply(obs, s);
            if obs.should_stop() {
                return;
            }
            sim.invariants(obs);
            if obs.should_stop() {
                return;
            }
            if i + 1 == steps.len() {
                for a in &sim.acts {
                    if a.state == 0 {
                        obs.fault("action_left_pending");
                    }
                }
            }
            let gm = sim.glv_markets();
            obs.fingerprint(&[
                gm.len() as u64,
                sim.acts.len().min(4) as u64,
                (sim.glv_supply() == 0) as u64,
                gm.iter().filter(|m| sim.recorded(**m).unwrap_or(0) > 0).count() as u64,
            ]);
        }
    }

    fn simplify_step(&self, step: &Step) -> Vec<Step> {
        let mut v = vec![];
        match step.clone() {
            Step::Advance { secs, repost } => {
                if secs > 0 {
                    v.push(Step::Advance { secs: 0, repost });
                    v.push(Step::Advance { secs: secs / 2, repost });
                }
                if !repost {
                    v.push(Step::Advance { secs, repost: true });
                }
            }
            Step::CreateDeposit { user, m, gm, long, short, min_glv, min_gm, first_receiver } => {
                if long > 0 || short > 0 {
                    v.push(Step::CreateDeposit { user, m, gm, long: 0, short: 0, min_glv, min_gm, first_receiver });
                }
                if min_glv > 0 || min_gm > 0 || first_receiver {
                    v.push(Step::CreateDeposit { user, m, gm, long, short, min_glv: 0, min_gm: 0, first_receiver: false });
                }
                if gm > 1 {
                    v.push(Step::CreateDeposit { user, m, gm: gm / 2, long, short, min_glv, min_gm, first_receiver });
                }
            }
            Step::Execute { k, throw, by, fail_cpi } => {
                if fail_cpi.is_some() {
                    v.push(Step::Execute { k, throw, by, fail_cpi: None });
                }
                if by != Who::Keeper {
                    v.push(Step::Execute { k, throw, by: Who::Keeper, fail_cpi });
                }
                if !throw {
                    v.push(Step::Execute { k, throw: true, by, fail_cpi });
                }
            }
            Step::RoundTrip { user, m, gm, long, short } => {
                if long > 0 || short > 0 {
                    v.push(Step::RoundTrip { user, m, gm: gm.max(1_000_000_000), long: 0, short: 0 });
                }
                if gm > 1 {
                    v.push(Step::RoundTrip { user, m, gm: gm / 2, long, short });
                }
            }
            Step::SetPrice { token, price_e6, spread_bps } => {
                if spread_bps > 0 {
                    v.push(Step::SetPrice { token, price_e6, spread_bps: 0 });
                }
                let base = INITIAL_PRICE_E6[token as usize % N_TOKENS];
                if price_e6 != base {
                    v.push(Step::SetPrice { token, price_e6: base, spread_bps });
                }
            }
            _ => {}
        }
        v
    }

    fn simplify_cfg(&self, cfg: &Cfg) -> Vec<Cfg> {
        let mut v = vec![];
        if cfg.batch != Batch::Plain {
            v.push(Cfg { batch: Batch::Plain, ..cfg.clone() });
        }
        if cfg.with_positions {
            v.push(Cfg { with_positions: false, ..cfg.clone() });
        }
        v
    }

    fn components(&self) -> Components {
        Components {
            real: vec![
                "gmsol_store program entrypoint (GLV management, GLV deposit / withdrawal / shift create-execute-close, get_glv_token_value, get_market_token_value, plain deposits / withdrawals / orders, price feeds, oracle)".into(),
                "gmsol-model (pool value, market token pricing, GLV pricing) as linked into the store program".into(),
                "gmsol_mock_chainlink_verifier, SPL Token, Token-2022 (GLV token mint), Associated Token Account processors".into(),
            ],
            stub: vec![
                "chainsim runtime (accounts db, loader, CPI, sysvars, system program)".into(),
                "chainsim report encoder (Chainlink Data Streams reports forged for the mock verifier)".into(),
                "GLV client in scn-glv/src/glvx.rs (account lists, remaining accounts ordering)".into(),
            ],
        }
    }

    fn rule(&self) -> String {
        format!(
            "glv_history(focus={}): base world = 7 tokens, 4 markets sharing (SOL,USDC) with index SOL/BTC/ETH/DOGE, one market with a foreign short token, one with a foreign long token, one with the same two tokens in reversed roles, 3 users seeding every market; per run a swarm configuration (sub-batch plain 4/8, lifecycle-fault 3/8, misconfiguration 1/8; 2-4 GLV markets; feed spread 0-100 bps; positions on/off) and a plan of 5-50 steps (15 %: 60-160): initialize_glv over a subset, flag toggles, per-market max_amount/max_value (none, zero, tiny, typical, huge), insert (same tokens, foreign long, foreign short, mixed market/token accounts, stranger), remove, GLV config, GLV deposits (market tokens, long/short tokens, both; min outputs too high), withdrawals, keeper shifts, each as create/execute/close flows with duplicates, delays, crashes, wrong closers, injected CPI failures and expiry in the fault batch, price moves, clock advances with or without fresh prices, plain market deposits/withdrawals, dust into vaults, fork probes (deposit+withdraw round trip, cap edge). A case is one executed plan step; distinct = outcome trigrams (role, op, outcome class) plus (GLV size, live actions, supply zero, funded markets) fingerprints.",
            self.focus
        )
    }
}

/// Append execute / close steps (with lifecycle faults in the fault batch) for the action just created.
fn push_flow(r: &mut Rng, steps: &mut Vec<Step>, faults: bool, throw: bool) {
    let ex = |throw: bool| Step::Execute { k: 0, throw, by: Who::Keeper, fail_cpi: None };
    let cl = |by: CloseBy| Step::Close { k: 0, by };
    if !faults {
        if r.chance(1, 8) {
            // benign delay: something else happens in between
            steps.push(Step::Advance { secs: r.range(0, 20) as u32, repost: true });
        }
        steps.push(ex(throw));
        steps.push(cl(CloseBy::Owner));
        return;
    }
    match r.below(12) {
        0 => {
            // duplicate execute
            steps.push(ex(throw));
            steps.push(ex(throw));
            steps.push(cl(CloseBy::Owner));
        }
        1 => {
            // owner crash: the keeper cleans up
            steps.push(ex(throw));
            steps.push(cl(CloseBy::Keeper));
        }
        2 => {
            // owner cancels before execution, keeper's execute arrives late
            steps.push(cl(CloseBy::Owner));
            steps.push(ex(throw));
        }
        3 => {
            // keeper tries to close a pending action
            steps.push(cl(CloseBy::Keeper));
            steps.push(ex(throw));
            steps.push(cl(CloseBy::Owner));
        }
        4 => {
            steps.push(ex(throw));
            steps.push(cl(CloseBy::Stranger));
            steps.push(cl(CloseBy::Owner));
        }
        5 => {
            // expiry
            steps.push(Step::Advance { secs: r.range(3601, 4000) as u32, repost: true });
            steps.push(ex(false));
            steps.push(cl(CloseBy::Owner));
        }
        6 => {
            steps.push(Step::Execute { k: 0, throw, by: Who::Keeper, fail_cpi: Some(r.range(1, 12) as u8) });
            steps.push(ex(throw));
            steps.push(cl(CloseBy::Owner));
        }
        7 => {
            steps.push(Step::Execute { k: 0, throw, by: *r.pick(&[Who::Stranger, Who::User(1)]), fail_cpi: None });
            steps.push(ex(throw));
            steps.push(cl(CloseBy::Owner));
        }
        8 => {
            // tx loss: the execute never arrives; the action stays pending (owner crash as well)
        }
        9 => {
            // reordering: executed later, after whatever comes next; k is resolved at execution time
            steps.push(Step::Advance { secs: r.range(0, 50) as u32, repost: true });
            steps.push(Step::SetPrice { token: 0, price_e6: INITIAL_PRICE_E6[0] * r.range(80, 120) / 100, spread_bps: *r.pick(&[0u16, 2, 30]) });
            steps.push(ex(throw));
            steps.push(cl(CloseBy::Owner));
        }
        _ => {
            steps.push(ex(throw));
            steps.push(cl(CloseBy::Owner));
        }
    }
}

pub fn registry_parts(focus: &'static str) -> GlvHistory {
    GlvHistory { focus }
}

pub type Balances = BTreeMap<usize, u64>;
