//! Development smoke test of the GLV client (not part of the checks).
use chainsim::deploy::*;
use chainsim::ex::*;
use chainsim::rt::*;
use chainsim::smoke::price_report;
use scn_glv::glvx::*;

fn show(label: &str, out: &TxOutcome) -> bool {
    eprintln!("== {label}: {} {:?} {:?}", out.class(), out.panic, out.runtime_rule);
    out.ok
}

fn main() {
    let mut w = World::new(1_700_000_000, 1000);
    let mut opts = DeployOpts::default();
    opts.tokens.push(TokenSpec { name: "BTC", decimals: 8, precision: 2, synthetic: true, schema: 3, heartbeat: 120 });
    opts.tokens.push(TokenSpec { name: "USDT", decimals: 6, precision: 6, synthetic: false, schema: 3, heartbeat: 120 });
    opts.markets = vec![(0, 0, 1), (2, 0, 1), (0, 0, 3)];
    let d = deploy_full(&mut w, &opts);
    let e18 = 10i128.pow(18);
    let now = w.clock.unix_timestamp;
    for (i, p) in [(0usize, 150 * e18), (1, e18), (2, 60_000 * e18), (3, e18)] {
        let r = price_report(&d, i, now, p, 2);
        show("update feed", &w.process(update_feed_ix(&d, i, &r, false)));
    }
    let user = d.users[0];
    let mut nonce = [0u8; 32];
    for m in 0..2 {
        nonce[0] += 1;
        let (ixs, dep) = create_deposit_tx(&d, &DepositArgs {
            owner: user, market: m, nonce, long_amount: 500_000_000_000, short_amount: 75_000_000_000,
            min_market_token: 0, execution_lamports: 5_000_000, initial_long_token: None, initial_short_token: None,
            long_path: vec![], short_path: vec![],
        });
        show("create_deposit", &w.process_tx(&ixs, &TxOpts::default()));
        let ix = execute_deposit_ix(&w, &d, &dep, true, 5000).unwrap();
        show("execute_deposit", &w.process(ix));
        let ix = close_deposit_ix(&w, &d, &dep, &user).unwrap();
        show("close_deposit", &w.process(ix));
    }
    let k = glv_keys(&d, 0);
    show("initialize_glv", &w.process(initialize_glv_ix(&d, &k, &[0])));
    show("insert same tokens", &w.process(insert_glv_market_ix(&d, &k, 1, &d.keeper)));
    show("insert foreign short (must fail)", &w.process(insert_glv_market_ix(&d, &k, 2, &d.keeper)));
    for m in 0..2 {
        show("toggle", &w.process(toggle_glv_market_flag_ix(&d, &k, m, "is_deposit_allowed", true)));
    }
    show("config", &w.process(update_glv_market_config_ix(&d, &k, 0, Some(1_000_000_000_000_000), Some(10u128.pow(30)))));
    let glv = read_glv(&w, &k.glv).unwrap();
    eprintln!("glv markets = {}, long={} short={}", glv.num_markets(), glv.long_token(), glv.short_token());
    let mt0 = d.markets[0].market_token;
    let gm = token_balance(&w, &ata(&user, &mt0));
    eprintln!("user GM = {gm}");
    // GLV deposit (GM only)
    nonce[0] = 10;
    let (ixs, dep) = create_glv_deposit_tx(&d, &k, &GlvDepositArgs {
        owner: user, receiver: None, market: 0, nonce, market_token_amount: gm / 4, long_amount: 0, short_amount: 0,
        min_market_token: 0, min_glv_token: 0, execution_lamports: 5_000_000,
    });
    show("create_glv_deposit", &w.process_tx(&ixs, &TxOpts::default()));
    let ix = execute_glv_deposit_ix(&w, &d, &dep, &d.keeper, true, 5000).unwrap();
    let out = w.process(ix);
    show("execute_glv_deposit", &out);
    eprintln!("   pricing: {:?}", parse_glv_pricing(&out));
    let ix = close_glv_deposit_ix(&w, &d, &dep, &user).unwrap();
    show("close_glv_deposit", &w.process(ix));
    eprintln!("   user GLV = {}", token_balance(&w, &ata_2022(&user, &k.glv_token)));
    // GLV deposit (tokens + GM) into market 1
    nonce[0] = 11;
    let (ixs, dep) = create_glv_deposit_tx(&d, &k, &GlvDepositArgs {
        owner: user, receiver: None, market: 1, nonce, market_token_amount: 1_000_000_000, long_amount: 10_000_000_000, short_amount: 1_000_000_000,
        min_market_token: 0, min_glv_token: 0, execution_lamports: 5_000_000,
    });
    show("create_glv_deposit 2", &w.process_tx(&ixs, &TxOpts::default()));
    let ix = execute_glv_deposit_ix(&w, &d, &dep, &d.keeper, true, 5000).unwrap();
    let out = w.process(ix);
    show("execute_glv_deposit 2", &out);
    eprintln!("   pricing: {:?}", parse_glv_pricing(&out));
    let ix = close_glv_deposit_ix(&w, &d, &dep, &user).unwrap();
    show("close_glv_deposit 2", &w.process(ix));
    let glv = read_glv(&w, &k.glv).unwrap();
    for maximize in [true, false] {
        let out = w.process(get_glv_token_value_ix(&d, &k, &glv, mint_supply(&w, &k.glv_token), maximize));
        show("get_glv_token_value", &out);
        eprintln!("   {:?}", parse_glv_token_value(&out));
        let out = w.process(get_market_token_value_ix(&d, &d.markets[0], 1_000_000_000, "max_after_deposit", maximize));
        show("get_market_token_value", &out);
        eprintln!("   {:?}", parse_market_token_value(&out));
    }
    // shift
    nonce[0] = 12;
    let bal0 = glv.market_config(&mt0).unwrap().balance();
    let (ix, sh) = create_glv_shift_ix(&d, &k, &GlvShiftArgs { authority: d.keeper, from_market: 0, to_market: 1, nonce, amount: bal0 / 2, min_to: 0, execution_lamports: 5_000_000 });
    show("create_glv_shift", &w.process(ix));
    let ix = execute_glv_shift_ix(&w, &d, &sh, &d.keeper, true, 5000).unwrap();
    show("execute_glv_shift", &w.process(ix));
    let ix = close_glv_shift_ix(&w, &d, &sh, &d.keeper).unwrap();
    show("close_glv_shift", &w.process(ix));
    // withdrawal
    nonce[0] = 13;
    let g = token_balance(&w, &ata_2022(&user, &k.glv_token));
    let (ixs, wd) = create_glv_withdrawal_tx(&d, &k, &GlvWithdrawalArgs { owner: user, market: 1, nonce, glv_token_amount: g / 2, min_long: 0, min_short: 0, execution_lamports: 5_000_000 });
    show("create_glv_withdrawal", &w.process_tx(&ixs, &TxOpts::default()));
    let ix = execute_glv_withdrawal_ix(&w, &d, &wd, &d.keeper, true, 5000).unwrap();
    let out = w.process(ix);
    show("execute_glv_withdrawal", &out);
    eprintln!("   pricing: {:?}", parse_glv_pricing(&out));
    let ix = close_glv_withdrawal_ix(&w, &d, &wd, &user).unwrap();
    show("close_glv_withdrawal", &w.process(ix));
    let glv = read_glv(&w, &k.glv).unwrap();
    for m in 0..2 {
        let mt = d.markets[m].market_token;
        eprintln!("market {m}: recorded {} vault {}", glv.market_config(&mt).unwrap().balance(), token_balance(&w, &glv_vault(&k.glv, &mt)));
    }
    show("toggle off", &w.process(toggle_glv_market_flag_ix(&d, &k, 0, "is_deposit_allowed", false)));
    show("remove (nonzero balance, must fail)", &w.process(remove_glv_market_ix(&d, &k, 0)));
    let t = std::time::Instant::now();
    let w2 = w.clone();
    eprintln!("clone {:?} accounts {}", t.elapsed(), w2.accounts.len());
}
