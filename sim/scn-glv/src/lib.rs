//! Scenario crate `scn-glv` (chain-level simulation on the chainsim runtime).
//!
//! * `glvx` — GLV client (PDAs, instruction builders for every GLV instruction, event parsers, readers);
//!   reusable by other scenario crates.
//! * `scn`  — scenario `glv_history` and its oracles (C45; GLV lifecycle oracles reported under C23).

pub mod glvx;
pub mod scn;

use simcore::{CheckSpec, Part};

pub const PROPERTIES: &[&str] = &["C45"];

fn assumptions() -> Vec<String> {
    vec![
        "Reference GM prices come from the store's own `get_market_token_value` instruction (pool value and supply from its event, multiplication/division redone with big integers) evaluated on a copy of the world at the same clock and feeds: for deposits on the post-transaction state (the state the program priced on, since the market deposit part is committed unchanged), for withdrawals on the pre-transaction state. A defect shared by `pool_value` itself is out of scope here (C06/C07 cover it).".into(),
        "GLV deposits and withdrawals use no swap paths; GLV shifts are checked for conservation only (the statement does not constrain shifts).".into(),
        "Compute budget, transaction size and BPF stack/heap limits are not modelled by the runtime.".into(),
    ]
}

pub fn registry(property: &str) -> Option<CheckSpec> {
    match property {
        "C45" => Some(CheckSpec {
            property: "C45",
            level: "exploration",
            parts: vec![Part::new(scn::GlvHistory { focus: "C45" }, 6000, 120_000)],
            assumptions: assumptions(),
        }),
        // GLV part of the action lifecycle property; not listed in PROPERTIES (owned by another crate).
        "C23" => Some(CheckSpec {
            property: "C23",
            level: "exploration",
            parts: vec![Part::new(scn::GlvHistory { focus: "C23" }, 6000, 120_000)],
            assumptions: assumptions(),
        }),
        _ => None,
    }
}
