//! Umbrella binary: every property, with the parts of all engines that serve it.

use simcore::CheckSpec;

type Reg = fn(&str) -> Option<CheckSpec>;

fn engines() -> Vec<(&'static [&'static str], Reg)> {
    vec![
        (scn_admin::PROPERTIES, scn_admin::registry as Reg),
        (scn_exchange::PROPERTIES, scn_exchange::registry as Reg),
        (scn_glv::PROPERTIES, scn_glv::registry as Reg),
        (scn_timelock::PROPERTIES, scn_timelock::registry as Reg),
        (scn_treasury::PROPERTIES, scn_treasury::registry as Reg),
        (scn_lp::PROPERTIES, scn_lp::registry as Reg),
        (scn_competition::PROPERTIES, scn_competition::registry as Reg),
        (unitsim::PROPERTIES, unitsim::registry as Reg),
        (scn_user::PROPERTIES, scn_user::registry as Reg),
        (scn_oracle::PROPERTIES, scn_oracle::registry as Reg),
        (marketsim::PROPERTIES, marketsim::registry as Reg),
    ]
}

fn registry(property: &str) -> Option<CheckSpec> {
    let mut merged: Option<CheckSpec> = None;
    for (_, reg) in engines() {
        if let Some(spec) = reg(property) {
            match merged.as_mut() {
                None => merged = Some(spec),
                Some(m) => {
                    m.parts.extend(spec.parts);
                    for a in spec.assumptions {
                        if !m.assumptions.contains(&a) {
                            m.assumptions.push(a);
                        }
                    }
                    if spec.level == "fault_enumeration" {
                        m.level = "fault_enumeration";
                    }
                }
            }
        }
    }
    merged
}

fn main() {
    let out = chainsim::rt::silence_stdout();
    simcore::out::set_output(out);
    let mut all: Vec<&'static str> = vec![];
    for (props, _) in engines() {
        for p in props {
            if !all.contains(p) {
                all.push(p);
            }
        }
    }
    all.sort();
    simcore::cli_main(&registry, &all)
}
