fn main() {}
