//! Check registry, CLI, evidence writer.

use std::collections::{BTreeMap, HashSet};
use std::sync::Arc;
use std::time::Instant;

use serde_json::{json, Value};

use crate::known::Known;
use crate::runner::{Ctx, PartDyn, PartReport, ReplayFile, DEFAULT_SEED};
use crate::scenario::Tier;

pub struct CheckSpec {
    pub property: &'static str,
    /// `exploration`, `fault_enumeration`, `translation_validation`, …
    pub level: &'static str,
    pub parts: Vec<Box<dyn PartDyn>>,
    pub assumptions: Vec<String>,
}

fn arg_value(args: &[String], name: &str) -> Option<String> {
    args.iter()
        .position(|a| a == name)
        .and_then(|i| args.get(i + 1).cloned())
}

fn verif_dir() -> String {
    std::env::var("VERIF_DIR").unwrap_or_else(|_| "/verif".to_string())
}

pub fn write_evidence(
    dir: &str,
    spec: &CheckSpec,
    ctx: &Ctx,
    parts: &[PartReport],
    wall_s: f64,
    violations: u64,
) {
    let mut fp: HashSet<u64> = HashSet::new();
    let mut runs = 0u64;
    let mut steps = 0u64;
    let mut evals = 0u64;
    let mut sim_seconds = 0u128;
    let mut ops_ok = 0u64;
    let mut ops_failed = 0u64;
    let mut faults: BTreeMap<String, u64> = BTreeMap::new();
    let mut probes: BTreeMap<String, u64> = BTreeMap::new();
    let mut samples: Vec<Value> = vec![];
    let mut real: Vec<String> = vec![];
    let mut stub: Vec<String> = vec![];
    let mut rules: Vec<String> = vec![];
    let mut part_rows: Vec<Value> = vec![];
    let mut known_rows: Vec<Value> = vec![];
    let mut other: BTreeMap<String, u64> = BTreeMap::new();
    for p in parts {
        // fingerprints of different scenarios are kept apart by mixing in the scenario name
        let tag = crate::rng::hash_str(&p.scenario);
        for f in &p.fingerprints {
            fp.insert(crate::rng::mix(&[tag, *f]));
        }
        runs += p.runs;
        steps += p.steps;
        evals += p.oracle_evals;
        sim_seconds += p.sim_seconds;
        ops_ok += p.ops_ok;
        ops_failed += p.ops_failed;
        for (k, v) in &p.faults {
            *faults.entry(k.clone()).or_insert(0) += v;
        }
        for (k, v) in &p.probes {
            *probes.entry(k.clone()).or_insert(0) += v;
        }
        for s in p.samples.iter().take(2) {
            let mut s = s.clone();
            s["scenario"] = json!(p.scenario);
            samples.push(s);
        }
        for c in &p.components.real {
            if !real.contains(c) {
                real.push(c.clone());
            }
        }
        for c in &p.components.stub {
            if !stub.contains(c) {
                stub.push(c.clone());
            }
        }
        rules.push(format!("[{}] {}", p.scenario, p.rule));
        part_rows.push(json!({
            "scenario": p.scenario,
            "runs": p.runs,
            "runs_planned": p.runs_planned,
            "wall_capped": p.wall_capped,
            "steps": p.steps,
            "oracle_evaluations": p.oracle_evals,
            "distinct_fingerprints": p.fingerprints.len(),
            "wall_s": p.wall_s,
            "batch_hash": format!("{:016x}", p.batch_hash),
        }));
        for (idx, (c, v)) in &p.known_hits {
            if v.property == spec.property {
                known_rows.push(json!({"finding_index": idx, "count": c, "example": v}));
            } else {
                *other.entry(format!("{} (known finding)", v.property)).or_insert(0) += c;
            }
        }
        for (k, c) in &p.other_violations {
            *other.entry(k.clone()).or_insert(0) += c;
        }
    }
    if samples.is_empty() {
        samples.push(json!({"note": "no run completed"}));
    }
    let zero_probes: Vec<&String> = probes.iter().filter(|(_, v)| **v == 0).map(|(k, _)| k).collect();
    let per_hour = |n: u64| -> f64 {
        if wall_s > 0.0 {
            n as f64 * 3600.0 / wall_s
        } else {
            0.0
        }
    };
    let mut ev = json!({
        "property_id": spec.property,
        "tier": ctx.tier.as_str(),
        "seed": ctx.seed,
        "level": spec.level,
        "coverage": {
            "evaluations": evals.max(runs),
            "distinct_nontrivial": fp.len(),
            "rule": rules.join(" || "),
            "samples": samples,
            "simulated_runs": runs,
            "plan_steps_executed": steps,
            "oracle_evaluations": evals,
            "operations_ok": ops_ok,
            "operations_failed_or_rejected": ops_failed,
            "simulated_seconds_covered": sim_seconds.to_string(),
            "runs_per_hour": per_hour(runs),
            "seeds_per_hour": per_hour(runs),
            "faults_fired": faults,
            "reach_probes": probes,
            "reach_probes_at_zero": zero_probes,
            "parts": part_rows,
            "components_real_code": real,
            "components_stubbed": stub,
            "known_findings_hit": known_rows,
            "unknown_violations_of_other_properties_seen_not_reported_here": other,
            "threads": ctx.threads,
            "exhaustive": false,
        },
        "assumptions": spec.assumptions,
        "wall_s": wall_s,
        "violations": violations,
    });
    // Level-specific keys (translation validation): scenarios report them through reserved probes.
    if spec.level == "translation_validation" {
        let programs = probes.get("tv_programs").copied().unwrap_or(0);
        let checked = probes.get("tv_disagreements_checked").copied().unwrap_or(0);
        if programs > 0 {
            ev["coverage"]["programs"] = json!(programs);
            ev["coverage"]["disagreements_checked"] = json!(checked);
        }
    }
    let _ = std::fs::create_dir_all(format!("{dir}/evidence"));
    let path = format!("{dir}/evidence/{}.json", spec.property);
    let tmp = format!("{path}.tmp");
    std::fs::write(&tmp, serde_json::to_string_pretty(&ev).unwrap()).expect("write evidence");
    std::fs::rename(&tmp, &path).expect("rename evidence");
}

pub fn run_check(spec: &CheckSpec, ctx: &Ctx) -> i32 {
    let t0 = Instant::now();
    eprintln!(
        "SEED {} property={} tier={} threads={}",
        ctx.seed,
        spec.property,
        ctx.tier.as_str(),
        ctx.threads
    );
    let mut reports = vec![];
    let mut code = 0;
    let mut violations = 0u64;
    for part in &spec.parts {
        let rep = part.run(spec.property, ctx);
        eprintln!(
            "[{}] runs={} steps={} evals={} distinct={} wall={:.1}s{}",
            rep.scenario,
            rep.runs,
            rep.steps,
            rep.oracle_evals,
            rep.fingerprints.len(),
            rep.wall_s,
            if rep.wall_capped { " (wall-capped)" } else { "" }
        );
        if let Some(e) = &rep.harness_error {
            eprintln!("HARNESS-ERROR: {e}");
            crate::outln!("HARNESS-ERROR property={} {}", spec.property, e);
            code = 2;
        }
        for (idx, (c, v)) in &rep.known_hits {
            let f = &ctx.known.findings[*idx];
            // Known findings of other properties are reported by those properties' checks.
            if f.property != spec.property {
                continue;
            }
            crate::outln!(
                "KNOWN-FINDING: property={} oracle={} key={} hits={} — {}",
                f.property, v.oracle, f.key, c, f.description
            );
        }
        if let Some((v, path)) = &rep.violation {
            violations += 1;
            crate::outln!("VIOLATION property={} replay={}", v.property, path);
            crate::outln!(
                "  oracle={} key={} step={} detail={}",
                v.oracle, v.key, v.step, v.detail
            );
            if code == 0 {
                code = 1;
            }
        }
        let stop = rep.violation.is_some() || rep.harness_error.is_some();
        reports.push(rep);
        if stop {
            break;
        }
    }
    let wall = t0.elapsed().as_secs_f64();
    write_evidence(&ctx.verif_dir, spec, ctx, &reports, wall, violations);
    if code == 0 {
        crate::outln!(
            "OK property={} tier={} seed={} wall={:.1}s",
            spec.property,
            ctx.tier.as_str(),
            ctx.seed,
            wall
        );
    }
    code
}

pub fn cli_main(registry: &dyn Fn(&str) -> Option<CheckSpec>, all: &[&str]) -> ! {
    let args: Vec<String> = std::env::args().collect();
    let cmd = args.get(1).map(|s| s.as_str()).unwrap_or("");
    let dir = verif_dir();
    let known = Arc::new(Known::load(&format!("{dir}/known_findings.json")));
    // Silence panic messages of worker threads: panics are caught and reported by the harness.
    std::panic::set_hook(Box::new(|info| {
        crate::panic_loc::record(info);
    }));
    match cmd {
        "list" => {
            for p in all {
                crate::outln!("{p}");
            }
            std::process::exit(0);
        }
        "check" => {
            let property = arg_value(&args, "--property").unwrap_or_else(|| {
                eprintln!("--property required");
                std::process::exit(2)
            });
            let tier = match arg_value(&args, "--tier")
                .or_else(|| std::env::var("VERIF_TIER").ok())
                .as_deref()
            {
                Some("thorough") => Tier::Thorough,
                _ => Tier::Quick,
            };
            let seed = arg_value(&args, "--seed")
                .or_else(|| std::env::var("VERIF_SEED").ok())
                .and_then(|s| s.trim().parse::<u64>().ok())
                .unwrap_or(DEFAULT_SEED);
            let threads = arg_value(&args, "--threads")
                .and_then(|s| s.parse().ok())
                .unwrap_or_else(|| {
                    std::thread::available_parallelism()
                        .map(|n| n.get())
                        .unwrap_or(4)
                        .min(16)
                });
            let spec = registry(&property).unwrap_or_else(|| {
                eprintln!("HARNESS-ERROR: unknown property {property} for this engine");
                std::process::exit(2)
            });
            let ctx = Ctx {
                seed,
                tier,
                threads,
                known,
                verif_dir: dir,
                runs_override: arg_value(&args, "--runs").and_then(|s| s.parse().ok()),
                scale_pct: arg_value(&args, "--scale")
                    .or_else(|| std::env::var("VERIF_SCALE").ok())
                    .and_then(|s| s.parse().ok())
                    .unwrap_or(100),
                verify_replay: !args.iter().any(|a| a == "--no-verify-replay"),
            };
            // A panic on the main thread (harness bug) must not pass silently: the panic hook is silent.
            let code = match std::panic::catch_unwind(std::panic::AssertUnwindSafe(|| run_check(&spec, &ctx))) {
                Ok(c) => c,
                Err(_) => {
                    let (loc, msg) = crate::panic_loc::take().unwrap_or_default();
                    crate::outln!("HARNESS-ERROR property={} panic at {}: {}", spec.property, loc, msg);
                    2
                }
            };
            std::process::exit(code);
        }
        "replay" => {
            let path = args.get(2).cloned().unwrap_or_else(|| {
                eprintln!("replay <file>");
                std::process::exit(2)
            });
            let quiet = args.iter().any(|a| a == "--quiet");
            let text = std::fs::read_to_string(&path).unwrap_or_else(|e| {
                eprintln!("HARNESS-ERROR: cannot read {path}: {e}");
                std::process::exit(2)
            });
            let file: ReplayFile = serde_json::from_str(&text).unwrap_or_else(|e| {
                eprintln!("HARNESS-ERROR: cannot parse {path}: {e}");
                std::process::exit(2)
            });
            let spec = registry(&file.property).unwrap_or_else(|| {
                eprintln!("HARNESS-ERROR: unknown property {}", file.property);
                std::process::exit(2)
            });
            for part in &spec.parts {
                if let Some(out) = part.replay(&file, &known) {
                    if !quiet {
                        for l in &out.history {
                            crate::outln!("{l}");
                        }
                    }
                    if let Some(p) = out.panic {
                        crate::outln!("PANIC {p}");
                        std::process::exit(2);
                    }
                    match out.violation {
                        Some(v) => {
                            crate::outln!("VIOLATION property={} replay={}", v.property, path);
                            crate::outln!(
                                "  oracle={} key={} step={} detail={}",
                                v.oracle, v.key, v.step, v.detail
                            );
                            std::process::exit(1);
                        }
                        None => {
                            crate::outln!("NOT-REPRODUCED property={} replay={}", file.property, path);
                            std::process::exit(0);
                        }
                    }
                }
            }
            eprintln!("HARNESS-ERROR: no part owns scenario {}", file.scenario);
            std::process::exit(2);
        }
        "determinism" => {
            // Each run is executed at 1 thread and at N threads in this process, and the hashes are
            // printed so that the wrapper can diff them across processes.
            let n: u64 = arg_value(&args, "--runs").and_then(|s| s.parse().ok()).unwrap_or(200);
            let seed = arg_value(&args, "--seed")
                .and_then(|s| s.parse().ok())
                .unwrap_or(DEFAULT_SEED);
            let threads = arg_value(&args, "--threads").and_then(|s| s.parse().ok()).unwrap_or(16);
            let props: Vec<String> = match arg_value(&args, "--property") {
                Some(p) => vec![p],
                None => all.iter().map(|s| s.to_string()).collect(),
            };
            let mut bad = 0;
            for p in props {
                let spec = match registry(&p) {
                    Some(s) => s,
                    None => continue,
                };
                for part in &spec.parts {
                    let a = part.hashes(&p, seed, Tier::Quick, n, threads);
                    let b = part.hashes(&p, seed, Tier::Quick, n, 1.max(threads / 4));
                    let diff = a.iter().zip(b.iter()).filter(|(x, y)| x != y).count();
                    let mut h = 0u64;
                    for x in &a {
                        h = crate::rng::mix(&[h, *x]);
                    }
                    crate::outln!(
                        "DET property={} scenario={} runs={} batch={:016x} in_process_diffs={}",
                        p,
                        part.scenario_name(),
                        n,
                        h,
                        diff
                    );
                    bad += diff;
                }
            }
            std::process::exit(if bad == 0 { 0 } else { 2 });
        }
        _ => {
            eprintln!("usage: check --property Cxx [--tier quick|thorough] [--seed N] | replay <file> | determinism | list");
            std::process::exit(2);
        }
    }
}
