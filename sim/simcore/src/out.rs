//! Result-line output. Engines whose programs print to stdout redirect fd 1 and hand the original
//! stdout to `set_output`.

use std::io::Write;
use std::sync::Mutex;

static OUT: Mutex<Option<std::fs::File>> = Mutex::new(None);

pub fn set_output(f: std::fs::File) {
    *OUT.lock().unwrap() = Some(f);
}

pub fn line(s: String) {
    let mut g = OUT.lock().unwrap();
    match g.as_mut() {
        Some(f) => {
            let _ = writeln!(f, "{s}");
            let _ = f.flush();
        }
        None => {
            println!("{s}");
        }
    }
}

#[macro_export]
macro_rules! outln {
    ($($arg:tt)*) => { $crate::out::line(format!($($arg)*)) };
}
