//! Independent big-integer reference arithmetic for oracles.

pub use num_bigint::{BigInt, BigUint, Sign};
use num_traits::{One, Signed, ToPrimitive, Zero};

pub fn bu(x: u128) -> BigUint {
    BigUint::from(x)
}
pub fn bi(x: i128) -> BigInt {
    BigInt::from(x)
}
pub fn bui(x: u128) -> BigInt {
    BigInt::from(x)
}

/// floor(a*b/c), `None` if `c == 0`.
pub fn mul_div_floor(a: u128, b: u128, c: u128) -> Option<BigUint> {
    if c == 0 {
        return None;
    }
    Some(bu(a) * bu(b) / bu(c))
}

/// ceil(a*b/c), `None` if `c == 0`.
pub fn mul_div_ceil(a: u128, b: u128, c: u128) -> Option<BigUint> {
    if c == 0 {
        return None;
    }
    let n = bu(a) * bu(b);
    let c = bu(c);
    Some((&n + &c - BigUint::one()) / &c)
}

pub fn to_u128(x: &BigUint) -> Option<u128> {
    x.to_u128()
}

pub fn to_i128(x: &BigInt) -> Option<i128> {
    x.to_i128()
}

pub fn pow10(n: u32) -> BigUint {
    BigUint::from(10u32).pow(n)
}

/// Floor division for signed big integers (rounds towards negative infinity).
pub fn div_floor(a: &BigInt, b: &BigInt) -> BigInt {
    let (q, r) = (a / b, a % b);
    if !r.is_zero() && (r.is_negative() != b.is_negative()) {
        q - 1
    } else {
        q
    }
}

/// Division rounding the magnitude up (away from zero).
pub fn div_round_up_magnitude(a: &BigInt, b: &BigInt) -> BigInt {
    let q = a / b;
    let r = a % b;
    if r.is_zero() {
        q
    } else if (a.is_negative()) != (b.is_negative()) {
        q - 1
    } else {
        q + 1
    }
}
