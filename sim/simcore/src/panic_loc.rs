//! Silent process-wide panic hook that records the location of the last panic per thread.

use std::cell::RefCell;

thread_local! {
    static LAST: RefCell<Option<(String, String)>> = const { RefCell::new(None) };
}

pub fn record(info: &std::panic::PanicHookInfo<'_>) {
    let loc = info
        .location()
        .map(|l| format!("{}:{}", l.file(), l.line()))
        .unwrap_or_default();
    let msg = if let Some(s) = info.payload().downcast_ref::<&str>() {
        s.to_string()
    } else if let Some(s) = info.payload().downcast_ref::<String>() {
        s.clone()
    } else {
        String::new()
    };
    LAST.with(|l| *l.borrow_mut() = Some((loc, msg)));
}

/// Take the location and message of the last panic on this thread.
pub fn take() -> Option<(String, String)> {
    LAST.with(|l| l.borrow_mut().take())
}

pub fn install() {
    std::panic::set_hook(Box::new(|info| record(info)));
}
