//! The scenario abstraction: *generate plan → execute plan*.

use serde::{de::DeserializeOwned, Deserialize, Serialize};
use std::fmt::Debug;

use crate::obs::Obs;

#[derive(Clone, Copy, Debug, PartialEq, Eq, Serialize, Deserialize)]
#[serde(rename_all = "lowercase")]
pub enum Tier {
    Quick,
    Thorough,
}

impl Tier {
    pub fn as_str(&self) -> &'static str {
        match self {
            Tier::Quick => "quick",
            Tier::Thorough => "thorough",
        }
    }
}

#[derive(Clone, Debug, Default, Serialize, Deserialize)]
pub struct Components {
    /// Components that ran real code of the repository (or real third-party programs).
    pub real: Vec<String>,
    /// Components that are stubs written for the simulator.
    pub stub: Vec<String>,
}

/// A simulated scenario. `execute` must be a pure function of `(cfg, steps, code)`.
pub trait Scenario: Send + Sync {
    type Cfg: Serialize + DeserializeOwned + Clone + Debug + Send;
    type Step: Serialize + DeserializeOwned + Clone + Debug + Send;

    fn name(&self) -> &'static str;

    /// Generate the swarm configuration and the plan for run `run` of seed `seed`.
    fn generate(&self, seed: u64, run: u64, tier: Tier, focus: &str) -> (Self::Cfg, Vec<Self::Step>);

    /// Execute a plan, reporting to `obs`. Should stop early when `obs.should_stop()`.
    fn execute(&self, cfg: &Self::Cfg, steps: &[Self::Step], obs: &mut Obs);

    /// Simpler variants of a step (smaller magnitudes, simpler operation), most aggressive first.
    fn simplify_step(&self, _step: &Self::Step) -> Vec<Self::Step> {
        vec![]
    }

    /// Simpler variants of the configuration (faults disabled one by one, fewer entities).
    fn simplify_cfg(&self, _cfg: &Self::Cfg) -> Vec<Self::Cfg> {
        vec![]
    }

    fn components(&self) -> Components;

    /// How cases are generated and what makes one distinct and non-trivial.
    fn rule(&self) -> String;
}
