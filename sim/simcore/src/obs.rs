//! Per-run observer: violations, reach probes, fault counters, coverage fingerprints, history.

use std::collections::{BTreeMap, HashSet};
use std::sync::Arc;

use serde::{Deserialize, Serialize};

use crate::known::Known;
use crate::rng::{hash_str, mix};

#[derive(Clone, Debug, Serialize, Deserialize, PartialEq, Eq)]
pub struct Violation {
    pub property: String,
    /// Which oracle fired (stable identifier).
    pub oracle: String,
    /// Structured signature key, used to match known findings.
    pub key: String,
    /// Human readable detail.
    pub detail: String,
    /// Index of the plan step at which it was detected.
    pub step: usize,
}

impl Violation {
    pub fn class(&self) -> (String, String) {
        (self.property.clone(), self.oracle.clone())
    }
}

#[derive(Default)]
pub struct Obs {
    pub focus: String,
    pub known: Arc<Known>,
    /// Violations not matched by a known finding.
    pub violations: Vec<Violation>,
    /// Violations matched by a `known` entry: (entry index, violation).
    pub known_hits: Vec<(usize, Violation)>,
    pub probes: BTreeMap<String, u64>,
    pub faults: BTreeMap<String, u64>,
    /// Distinct coverage fingerprints (cardinality only is used, so a HashSet is fine).
    pub fingerprints: HashSet<u64>,
    /// Number of oracle evaluations that were non-vacuous.
    pub oracle_evals: u64,
    pub steps: u64,
    pub ops_ok: u64,
    pub ops_failed: u64,
    pub sim_seconds: u64,
    /// Event history (only kept when `record` is on: replay, samples, determinism hashing).
    pub record: bool,
    pub history: Vec<String>,
    /// Rolling hash of the event history (always maintained).
    pub history_hash: u64,
    pub cur_step: usize,
    last2: [u64; 2],
    pub event_seq: u64,
}

impl Obs {
    pub fn new(focus: &str, known: Arc<Known>, record: bool) -> Self {
        Obs {
            focus: focus.to_string(),
            known,
            record,
            ..Default::default()
        }
    }

    pub fn set_step(&mut self, i: usize) {
        self.cur_step = i;
        self.steps += 1;
    }

    /// Record an event in the history. `text` must be a pure function of plan and code.
    pub fn event(&mut self, text: impl FnOnce() -> String) {
        self.event_seq += 1;
        if self.record {
            let t = text();
            self.history_hash = mix(&[self.history_hash, hash_str(&t)]);
            self.history.push(format!("#{} s{} {}", self.event_seq, self.cur_step, t));
        }
    }

    /// Cheap always-on event hashing (for determinism proof without strings).
    pub fn event_hash(&mut self, words: &[u64]) {
        self.event_seq += 1;
        self.history_hash = mix(&[self.history_hash, mix(words)]);
    }

    /// Record the outcome of an operation as `(actor role, op kind, outcome class)`; consecutive
    /// triples form the trigram coverage measure.
    pub fn outcome(&mut self, role: &str, op: &str, outcome: &str) {
        let h = mix(&[hash_str(role), hash_str(op), hash_str(outcome)]);
        let tri = mix(&[self.last2[0], self.last2[1], h, 0x7421]);
        self.fingerprints.insert(tri);
        self.last2 = [self.last2[1], h];
        self.event_hash(&[h]);
        if outcome == "ok" {
            self.ops_ok += 1;
        } else {
            self.ops_failed += 1;
        }
    }

    /// Abstract state fingerprint.
    pub fn fingerprint(&mut self, words: &[u64]) {
        self.fingerprints.insert(mix(words));
    }

    pub fn probe(&mut self, name: &str) {
        *self.probes.entry(name.to_string()).or_insert(0) += 1;
    }

    pub fn probe_n(&mut self, name: &str, n: u64) {
        *self.probes.entry(name.to_string()).or_insert(0) += n;
    }

    pub fn fault(&mut self, name: &str) {
        *self.faults.entry(name.to_string()).or_insert(0) += 1;
    }

    /// Count one non-vacuous oracle evaluation.
    pub fn checked(&mut self, _oracle: &str) {
        self.oracle_evals += 1;
    }

    pub fn violation(&mut self, property: &str, oracle: &str, key: String, detail: String) {
        let v = Violation {
            property: property.to_string(),
            oracle: oracle.to_string(),
            key,
            detail,
            step: self.cur_step,
        };
        self.event(|| format!("VIOLATION {} {} {}", v.property, v.oracle, v.key));
        if let Some(idx) = self.known.matches(&v) {
            self.known_hits.push((idx, v));
        } else {
            self.violations.push(v);
        }
    }

    /// Check helper: if `cond` is false, a violation is recorded.
    pub fn require(
        &mut self,
        cond: bool,
        property: &str,
        oracle: &str,
        key: impl FnOnce() -> String,
        detail: impl FnOnce() -> String,
    ) -> bool {
        self.oracle_evals += 1;
        if !cond {
            self.violation(property, oracle, key(), detail());
        }
        cond
    }

    /// First unknown violation for the focus property (or any if focus is "*").
    pub fn focus_violation(&self) -> Option<&Violation> {
        self.violations
            .iter()
            .find(|v| self.focus == "*" || v.property == self.focus)
    }

    /// A run should stop once an unknown violation of the focus property is recorded (later state
    /// may be inconsistent).
    pub fn should_stop(&self) -> bool {
        self.focus_violation().is_some()
    }
}
