//! Known findings: committed file, never written at run time.
//!
//! ```json
//! {"findings":[{"property":"C35","oracle":"unreadable_name","key":"kind=role,len=32*",
//!               "status":"known"|"fixed","description":"…","commit":"…"}]}
//! ```
//! `key` is matched against the violation key: `*` matches any run of characters.

use serde::{Deserialize, Serialize};

use crate::obs::Violation;

#[derive(Clone, Debug, Default, Serialize, Deserialize)]
pub struct Finding {
    pub property: String,
    pub oracle: String,
    pub key: String,
    pub status: String,
    pub description: String,
    #[serde(default)]
    pub commit: Option<String>,
}

#[derive(Clone, Debug, Default, Serialize, Deserialize)]
pub struct Known {
    #[serde(default)]
    pub findings: Vec<Finding>,
}

pub fn glob(pat: &str, s: &str) -> bool {
    // Simple `*` glob, no escapes.
    let parts: Vec<&str> = pat.split('*').collect();
    if parts.len() == 1 {
        return pat == s;
    }
    let mut pos = 0usize;
    for (i, p) in parts.iter().enumerate() {
        if p.is_empty() {
            continue;
        }
        if i == 0 {
            if !s.starts_with(p) {
                return false;
            }
            pos = p.len();
        } else if i == parts.len() - 1 {
            return s.len() >= pos + p.len() && s[pos..].ends_with(p);
        } else {
            match s[pos..].find(p) {
                Some(k) => pos += k + p.len(),
                None => return false,
            }
        }
    }
    true
}

impl Known {
    pub fn load(path: &str) -> Known {
        match std::fs::read_to_string(path) {
            Ok(t) => serde_json::from_str(&t).unwrap_or_else(|e| {
                eprintln!("HARNESS-ERROR: cannot parse {path}: {e}");
                std::process::exit(2);
            }),
            Err(_) => Known::default(),
        }
    }

    /// Index of the `known` entry matching this violation. `fixed` entries suppress nothing.
    pub fn matches(&self, v: &Violation) -> Option<usize> {
        self.findings.iter().position(|f| {
            f.status == "known"
                && f.property == v.property
                && f.oracle == v.oracle
                && glob(&f.key, &v.key)
        })
    }
}

#[cfg(test)]
mod tests {
    use super::glob;
    #[test]
    fn globs() {
        assert!(glob("a*c", "abc"));
        assert!(glob("a*", "abc"));
        assert!(glob("*c", "abc"));
        assert!(glob("abc", "abc"));
        assert!(!glob("a*d", "abc"));
        assert!(glob("k=1,*,z=2", "k=1,m=5,z=2"));
        assert!(!glob("ab", "abc"));
    }
}
