//! simcore — deterministic-simulation core shared by all engines.
pub mod big;
pub mod check;
pub mod known;
pub mod obs;
pub mod out;
pub mod panic_loc;
pub mod rng;
pub mod runner;
pub mod scenario;

pub use check::{cli_main, CheckSpec};
pub use obs::{Obs, Violation};
pub use rng::Rng;
pub use runner::Part;
pub use scenario::{Components, Scenario, Tier};
