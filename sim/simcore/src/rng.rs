//! Seeded PRNG: SplitMix64 for derivation, xoshiro256** for streams.
//!
//! Every random choice of a run is drawn from a stream derived from
//! `(VERIF_SEED, run index, stream id)`; adding a draw to one stream never shifts another.

#[derive(Clone, Debug)]
pub struct Rng {
    s: [u64; 4],
}

fn splitmix(x: &mut u64) -> u64 {
    *x = x.wrapping_add(0x9E37_79B9_7F4A_7C15);
    let mut z = *x;
    z = (z ^ (z >> 30)).wrapping_mul(0xBF58_476D_1CE4_E5B9);
    z = (z ^ (z >> 27)).wrapping_mul(0x94D0_49BB_1331_11EB);
    z ^ (z >> 31)
}

/// Stable 64-bit mix of several words (used for stream derivation and fingerprints).
pub fn mix(words: &[u64]) -> u64 {
    let mut h = 0x243F_6A88_85A3_08D3u64;
    for w in words {
        h ^= *w;
        h = splitmix(&mut h);
    }
    h
}

/// FNV-1a over bytes, then mixed. Stable across processes (no `RandomState`).
pub fn hash_bytes(b: &[u8]) -> u64 {
    let mut h = 0xcbf2_9ce4_8422_2325u64;
    for x in b {
        h ^= *x as u64;
        h = h.wrapping_mul(0x0000_0100_0000_01B3);
    }
    mix(&[h])
}

pub fn hash_str(s: &str) -> u64 {
    hash_bytes(s.as_bytes())
}

impl Rng {
    pub fn from_seed(seed: u64) -> Self {
        let mut x = seed;
        let s = [
            splitmix(&mut x),
            splitmix(&mut x),
            splitmix(&mut x),
            splitmix(&mut x),
        ];
        Rng { s }
    }

    /// Independent stream for `(seed, run, stream)`.
    pub fn derive(seed: u64, run: u64, stream: &str) -> Self {
        Self::from_seed(mix(&[seed, run, hash_str(stream)]))
    }

    pub fn fork(&mut self, tag: &str) -> Self {
        let a = self.u64();
        Self::from_seed(mix(&[a, hash_str(tag)]))
    }

    pub fn u64(&mut self) -> u64 {
        let r = self.s[1].wrapping_mul(5).rotate_left(7).wrapping_mul(9);
        let t = self.s[1] << 17;
        self.s[2] ^= self.s[0];
        self.s[3] ^= self.s[1];
        self.s[1] ^= self.s[2];
        self.s[0] ^= self.s[3];
        self.s[2] ^= t;
        self.s[3] = self.s[3].rotate_left(45);
        r
    }

    pub fn u128(&mut self) -> u128 {
        ((self.u64() as u128) << 64) | self.u64() as u128
    }

    /// Uniform in `0..n` (`n > 0`).
    pub fn below(&mut self, n: u64) -> u64 {
        assert!(n > 0);
        // Multiply-shift; bias is negligible for simulation purposes and it is deterministic.
        ((self.u64() as u128 * n as u128) >> 64) as u64
    }

    pub fn below128(&mut self, n: u128) -> u128 {
        assert!(n > 0);
        if n <= u64::MAX as u128 {
            self.below(n as u64) as u128
        } else {
            self.u128() % n
        }
    }

    /// Uniform in `lo..=hi`.
    pub fn range(&mut self, lo: u64, hi: u64) -> u64 {
        assert!(lo <= hi);
        if lo == 0 && hi == u64::MAX {
            return self.u64();
        }
        lo + self.below(hi - lo + 1)
    }

    pub fn range128(&mut self, lo: u128, hi: u128) -> u128 {
        assert!(lo <= hi);
        if lo == 0 && hi == u128::MAX {
            return self.u128();
        }
        lo + self.below128(hi - lo + 1)
    }

    pub fn range_i64(&mut self, lo: i64, hi: i64) -> i64 {
        assert!(lo <= hi);
        let span = (hi as i128 - lo as i128) as u128 + 1;
        (lo as i128 + self.below128(span) as i128) as i64
    }

    pub fn usize(&mut self, lo: usize, hi: usize) -> usize {
        self.range(lo as u64, hi as u64) as usize
    }

    /// True with probability `num/den`.
    pub fn chance(&mut self, num: u64, den: u64) -> bool {
        self.below(den) < num
    }

    pub fn bool(&mut self) -> bool {
        self.u64() & 1 == 1
    }

    pub fn pick<'a, T>(&mut self, xs: &'a [T]) -> &'a T {
        &xs[self.below(xs.len() as u64) as usize]
    }

    pub fn weighted<'a, T>(&mut self, xs: &'a [(u32, T)]) -> &'a T {
        let total: u64 = xs.iter().map(|x| x.0 as u64).sum();
        assert!(total > 0);
        let mut r = self.below(total);
        for (w, t) in xs {
            if r < *w as u64 {
                return t;
            }
            r -= *w as u64;
        }
        unreachable!()
    }

    /// Log-uniform magnitude in `[1, max]`: picks a bit length first, so small and huge values are
    /// both common.
    pub fn log_u128(&mut self, max: u128) -> u128 {
        if max <= 1 {
            return max;
        }
        let bits = 128 - max.leading_zeros();
        let b = self.range(1, bits as u64) as u32;
        let hi = if b >= 128 { u128::MAX } else { (1u128 << b) - 1 };
        let lo = 1u128 << (b - 1);
        let v = self.range128(lo, hi);
        v.min(max)
    }

    pub fn log_u64(&mut self, max: u64) -> u64 {
        self.log_u128(max as u128) as u64
    }

    pub fn shuffle<T>(&mut self, xs: &mut [T]) {
        for i in (1..xs.len()).rev() {
            let j = self.below(i as u64 + 1) as usize;
            xs.swap(i, j);
        }
    }

    pub fn bytes(&mut self, n: usize) -> Vec<u8> {
        (0..n).map(|_| self.u64() as u8).collect()
    }

    pub fn array32(&mut self) -> [u8; 32] {
        let mut a = [0u8; 32];
        for c in a.chunks_mut(8) {
            c.copy_from_slice(&self.u64().to_le_bytes());
        }
        a
    }
}

#[cfg(test)]
mod tests {
    use super::*;
    #[test]
    fn deterministic() {
        let mut a = Rng::derive(1, 2, "x");
        let mut b = Rng::derive(1, 2, "x");
        for _ in 0..100 {
            assert_eq!(a.u64(), b.u64());
        }
        let mut c = Rng::derive(1, 2, "y");
        assert_ne!(a.u64(), c.u64());
    }
}
