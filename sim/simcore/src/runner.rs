//! Batch runner, shrinker, replay, evidence.

use std::collections::{BTreeMap, HashSet};
use std::panic::{catch_unwind, AssertUnwindSafe};
use std::sync::atomic::{AtomicBool, AtomicU64, Ordering};
use std::sync::{Arc, Mutex};
use std::time::Instant;

use serde::{Deserialize, Serialize};
use serde_json::{json, Value};

use crate::known::Known;
use crate::obs::{Obs, Violation};
use crate::rng::mix;
use crate::scenario::{Components, Scenario, Tier};

pub const DEFAULT_SEED: u64 = 20260921;

/// `serde_json::Value` cannot hold 128-bit integers beyond 64 bits: such plans are embedded as JSON text.
pub fn enc<T: Serialize>(t: &T) -> Value {
    match serde_json::to_value(t) {
        Ok(v) => v,
        Err(_) => json!({ "__json": serde_json::to_string(t).unwrap_or_default() }),
    }
}

pub fn dec<T: serde::de::DeserializeOwned>(v: &Value) -> Result<T, String> {
    if let Some(text) = v.get("__json").and_then(|x| x.as_str()) {
        return serde_json::from_str(text).map_err(|e| e.to_string());
    }
    serde_json::from_value(v.clone()).map_err(|e| e.to_string())
}

#[derive(Clone, Debug)]
pub struct Ctx {
    pub seed: u64,
    pub tier: Tier,
    pub threads: usize,
    pub known: Arc<Known>,
    pub verif_dir: String,
    /// Override of the number of runs (development).
    pub runs_override: Option<u64>,
    /// Scale factor (percent) on the number of runs.
    pub scale_pct: u64,
    pub verify_replay: bool,
}

#[derive(Clone, Debug, Serialize, Deserialize)]
pub struct ReplayFile {
    pub version: u32,
    pub scenario: String,
    pub property: String,
    pub seed: u64,
    pub run: u64,
    pub cfg: Value,
    pub steps: Vec<Value>,
    pub violation: Violation,
    #[serde(default)]
    pub original_steps: usize,
    #[serde(default)]
    pub history: Vec<String>,
}

#[derive(Default)]
pub struct PartReport {
    pub scenario: String,
    pub runs: u64,
    pub runs_planned: u64,
    pub wall_capped: bool,
    pub steps: u64,
    pub ops_ok: u64,
    pub ops_failed: u64,
    pub sim_seconds: u128,
    pub oracle_evals: u64,
    pub fingerprints: HashSet<u64>,
    pub probes: BTreeMap<String, u64>,
    pub faults: BTreeMap<String, u64>,
    /// known-finding entry index -> (count, first example)
    pub known_hits: BTreeMap<usize, (u64, Violation)>,
    /// unknown violations of other properties seen (not reported by this check): property -> count
    pub other_violations: BTreeMap<String, u64>,
    pub violation: Option<(Violation, String)>,
    pub harness_error: Option<String>,
    pub samples: Vec<Value>,
    pub wall_s: f64,
    pub batch_hash: u64,
    pub components: Components,
    pub rule: String,
}

struct RunResult {
    hash: u64,
    obs: Obs,
    panic: Option<String>,
}

fn panic_msg(e: Box<dyn std::any::Any + Send>) -> String {
    if let Some(s) = e.downcast_ref::<&str>() {
        s.to_string()
    } else if let Some(s) = e.downcast_ref::<String>() {
        s.clone()
    } else {
        "panic".to_string()
    }
}

fn exec_once<S: Scenario>(
    s: &S,
    cfg: &S::Cfg,
    steps: &[S::Step],
    focus: &str,
    known: &Arc<Known>,
    record: bool,
) -> RunResult {
    let mut obs = Obs::new(focus, known.clone(), record);
    let r = catch_unwind(AssertUnwindSafe(|| s.execute(cfg, steps, &mut obs)));
    let panic = r.err().map(panic_msg);
    RunResult {
        hash: obs.history_hash,
        obs,
        panic,
    }
}

/// Generic erased interface used by the check registry.
pub trait PartDyn: Send + Sync {
    fn scenario_name(&self) -> &'static str;
    fn run(&self, property: &str, ctx: &Ctx) -> PartReport;
    /// Returns `Some(violation found?)` if this part owns the replay file's scenario.
    fn replay(&self, file: &ReplayFile, known: &Arc<Known>) -> Option<ReplayOutcome>;
    /// Per-run hashes for runs `0..n` (determinism proof).
    fn hashes(&self, property: &str, seed: u64, tier: Tier, n: u64, threads: usize) -> Vec<u64>;
}

pub struct ReplayOutcome {
    pub history: Vec<String>,
    pub violation: Option<Violation>,
    pub panic: Option<String>,
}

pub struct Part<S: Scenario> {
    pub s: S,
    pub runs_quick: u64,
    pub runs_thorough: u64,
    /// Wall-clock cap for the batch in seconds (quick, thorough).
    pub cap_s: (u64, u64),
}

impl<S: Scenario + 'static> Part<S> {
    pub fn new(s: S, runs_quick: u64, runs_thorough: u64) -> Box<dyn PartDyn> {
        Box::new(Part {
            s,
            runs_quick,
            runs_thorough,
            cap_s: (150, 1500),
        })
    }
    pub fn with_cap(s: S, runs_quick: u64, runs_thorough: u64, cap_s: (u64, u64)) -> Box<dyn PartDyn> {
        Box::new(Part {
            s,
            runs_quick,
            runs_thorough,
            cap_s,
        })
    }
}

fn same_class(v: &Violation, property: &str, oracle: &str) -> bool {
    v.property == property && v.oracle == oracle
}

/// Delta-debugging style minimisation of a failing plan.
fn shrink<S: Scenario>(
    s: &S,
    cfg: S::Cfg,
    steps: Vec<S::Step>,
    v: &Violation,
    known: &Arc<Known>,
) -> (S::Cfg, Vec<S::Step>, Violation, u64) {
    let property = v.property.clone();
    let oracle = v.oracle.clone();
    let start = Instant::now();
    let mut execs = 0u64;
    let budget_execs = 4000u64;
    let budget_s = 90.0;
    let mut best_cfg = cfg;
    let mut best_steps = steps;
    let mut best_v = v.clone();

    let mut try_plan = |cfg: &S::Cfg, steps: &[S::Step], execs: &mut u64| -> Option<Violation> {
        *execs += 1;
        let r = exec_once(s, cfg, steps, &property, known, false);
        if r.panic.is_some() {
            return None;
        }
        r.obs
            .violations
            .iter()
            .find(|x| same_class(x, &property, &oracle))
            .cloned()
    };
    let over = |execs: u64| execs >= budget_execs || start.elapsed().as_secs_f64() > budget_s;

    // 1. truncate after the violating step.
    if best_v.step + 1 < best_steps.len() {
        let cand: Vec<S::Step> = best_steps[..=best_v.step].to_vec();
        if let Some(nv) = try_plan(&best_cfg, &cand, &mut execs) {
            best_steps = cand;
            best_v = nv;
        }
    }
    // 2. chunk removal.
    let mut n = 2usize;
    while best_steps.len() >= 2 && !over(execs) {
        let len = best_steps.len();
        let chunk = (len + n - 1) / n;
        let mut removed = false;
        let mut i = 0usize;
        while i < len && !over(execs) {
            let hi = (i + chunk).min(len);
            let mut cand = Vec::with_capacity(len - (hi - i));
            cand.extend_from_slice(&best_steps[..i]);
            cand.extend_from_slice(&best_steps[hi..]);
            if !cand.is_empty() {
                if let Some(nv) = try_plan(&best_cfg, &cand, &mut execs) {
                    best_steps = cand;
                    best_v = nv;
                    removed = true;
                    break;
                }
            }
            i += chunk;
        }
        if removed {
            n = (n - 1).max(2);
        } else {
            if chunk == 1 {
                break;
            }
            n = (n * 2).min(len);
        }
    }
    // 3. simplify steps and cfg to fixpoint.
    let mut progress = true;
    let mut rounds = 0;
    while progress && !over(execs) && rounds < 6 {
        progress = false;
        rounds += 1;
        for i in 0..best_steps.len() {
            if over(execs) {
                break;
            }
            for cand_step in s.simplify_step(&best_steps[i]) {
                let mut cand = best_steps.clone();
                cand[i] = cand_step;
                if let Some(nv) = try_plan(&best_cfg, &cand, &mut execs) {
                    best_steps = cand;
                    best_v = nv;
                    progress = true;
                    break;
                }
                if over(execs) {
                    break;
                }
            }
        }
        for cand_cfg in s.simplify_cfg(&best_cfg) {
            if over(execs) {
                break;
            }
            if let Some(nv) = try_plan(&cand_cfg, &best_steps, &mut execs) {
                best_cfg = cand_cfg;
                best_v = nv;
                progress = true;
            }
        }
        // single step removal again after simplification
        let mut i = 0;
        while i < best_steps.len() && best_steps.len() > 1 && !over(execs) {
            let mut cand = best_steps.clone();
            cand.remove(i);
            if let Some(nv) = try_plan(&best_cfg, &cand, &mut execs) {
                best_steps = cand;
                best_v = nv;
                progress = true;
            } else {
                i += 1;
            }
        }
    }
    (best_cfg, best_steps, best_v, execs)
}

impl<S: Scenario + 'static> PartDyn for Part<S> {
    fn scenario_name(&self) -> &'static str {
        self.s.name()
    }

    fn run(&self, property: &str, ctx: &Ctx) -> PartReport {
        let t0 = Instant::now();
        let planned = ctx.runs_override.unwrap_or_else(|| {
            let base = match ctx.tier {
                Tier::Quick => self.runs_quick,
                Tier::Thorough => self.runs_thorough,
            };
            (base * ctx.scale_pct / 100).max(1)
        });
        let cap = match ctx.tier {
            Tier::Quick => self.cap_s.0,
            Tier::Thorough => self.cap_s.1,
        } as f64;
        let next = AtomicU64::new(0);
        let stop = AtomicBool::new(false);
        let capped = AtomicBool::new(false);
        struct Acc {
            rep: PartReport,
            hashes: BTreeMap<u64, u64>,
            first_bad: Option<(u64, Violation)>,
            first_panic: Option<(u64, String)>,
        }
        let acc = Mutex::new(Acc {
            rep: PartReport::default(),
            hashes: BTreeMap::new(),
            first_bad: None,
            first_panic: None,
        });
        let s = &self.s;
        let threads = ctx.threads.max(1);
        std::thread::scope(|scope| {
            for _ in 0..threads {
                scope.spawn(|| {
                    // Local accumulation to keep the lock cold.
                    let mut l_fp: HashSet<u64> = HashSet::new();
                    let mut l_probes: BTreeMap<String, u64> = BTreeMap::new();
                    let mut l_faults: BTreeMap<String, u64> = BTreeMap::new();
                    let mut l_hashes: Vec<(u64, u64)> = Vec::new();
                    let mut l = PartReport::default();
                    let mut l_bad: Option<(u64, Violation)> = None;
                    let mut l_panic: Option<(u64, String)> = None;
                    loop {
                        if stop.load(Ordering::Relaxed) {
                            break;
                        }
                        if t0.elapsed().as_secs_f64() > cap {
                            capped.store(true, Ordering::Relaxed);
                            break;
                        }
                        let run = next.fetch_add(1, Ordering::Relaxed);
                        if run >= planned {
                            break;
                        }
                        let (cfg, steps) = s.generate(ctx.seed, run, ctx.tier, property);
                        let record = run < 2;
                        let r = exec_once(s, &cfg, &steps, property, &ctx.known, record);
                        l.runs += 1;
                        l.steps += r.obs.steps;
                        l.ops_ok += r.obs.ops_ok;
                        l.ops_failed += r.obs.ops_failed;
                        l.sim_seconds += r.obs.sim_seconds as u128;
                        l.oracle_evals += r.obs.oracle_evals;
                        l_hashes.push((run, r.hash));
                        for f in &r.obs.fingerprints {
                            l_fp.insert(*f);
                        }
                        for (k, v) in &r.obs.probes {
                            *l_probes.entry(k.clone()).or_insert(0) += v;
                        }
                        for (k, v) in &r.obs.faults {
                            *l_faults.entry(k.clone()).or_insert(0) += v;
                        }
                        for (idx, v) in &r.obs.known_hits {
                            let e = l.known_hits.entry(*idx).or_insert((0, v.clone()));
                            e.0 += 1;
                        }
                        for v in &r.obs.violations {
                            if v.property != property {
                                *l.other_violations.entry(v.property.clone()).or_insert(0) += 1;
                            }
                        }
                        if record {
                            l.samples.push(json!({
                                "run": run,
                                "cfg": enc(&cfg),
                                "steps": steps.iter().take(12).map(enc).collect::<Vec<_>>(),
                                "n_steps": steps.len(),
                                "history_head": r.obs.history.iter().take(25).cloned().collect::<Vec<_>>(),
                            }));
                        }
                        if let Some(p) = r.panic {
                            if l_panic.as_ref().map_or(true, |x| run < x.0) {
                                l_panic = Some((run, p));
                            }
                            stop.store(true, Ordering::Relaxed);
                        }
                        if let Some(v) = r.obs.focus_violation() {
                            if l_bad.as_ref().map_or(true, |x| run < x.0) {
                                l_bad = Some((run, v.clone()));
                            }
                            stop.store(true, Ordering::Relaxed);
                        }
                    }
                    let mut a = acc.lock().unwrap();
                    a.rep.runs += l.runs;
                    a.rep.steps += l.steps;
                    a.rep.ops_ok += l.ops_ok;
                    a.rep.ops_failed += l.ops_failed;
                    a.rep.sim_seconds += l.sim_seconds;
                    a.rep.oracle_evals += l.oracle_evals;
                    a.rep.fingerprints.extend(l_fp);
                    for (k, v) in l_probes {
                        *a.rep.probes.entry(k).or_insert(0) += v;
                    }
                    for (k, v) in l_faults {
                        *a.rep.faults.entry(k).or_insert(0) += v;
                    }
                    for (k, (c, v)) in l.known_hits {
                        let e = a.rep.known_hits.entry(k).or_insert((0, v));
                        e.0 += c;
                    }
                    for (k, c) in l.other_violations {
                        *a.rep.other_violations.entry(k).or_insert(0) += c;
                    }
                    a.rep.samples.extend(l.samples);
                    for (r, h) in l_hashes {
                        a.hashes.insert(r, h);
                    }
                    if let Some(b) = l_bad {
                        if a.first_bad.as_ref().map_or(true, |x| b.0 < x.0) {
                            a.first_bad = Some(b);
                        }
                    }
                    if let Some(b) = l_panic {
                        if a.first_panic.as_ref().map_or(true, |x| b.0 < x.0) {
                            a.first_panic = Some(b);
                        }
                    }
                });
            }
        });
        let Acc {
            mut rep,
            hashes,
            first_bad,
            first_panic,
        } = acc.into_inner().unwrap();
        rep.scenario = s.name().to_string();
        rep.runs_planned = planned;
        rep.wall_capped = capped.load(Ordering::Relaxed);
        rep.components = s.components();
        rep.rule = s.rule();
        rep.samples.sort_by_key(|v| v["run"].as_u64().unwrap_or(0));
        let mut bh = 0u64;
        for (r, h) in &hashes {
            bh = mix(&[bh, *r, *h]);
        }
        rep.batch_hash = bh;

        if let Some((run, msg)) = first_panic {
            // A panic escaping a scenario is a harness error (scenarios convert program panics that
            // are property-relevant into violations themselves).
            let (cfg, steps) = s.generate(ctx.seed, run, ctx.tier, property);
            let path = format!(
                "{}/replays/{}-{}-{}-{}.panic.json",
                ctx.verif_dir,
                property,
                s.name(),
                ctx.seed,
                run
            );
            let rf = ReplayFile {
                version: 1,
                scenario: s.name().to_string(),
                property: property.to_string(),
                seed: ctx.seed,
                run,
                cfg: enc(&cfg),
                steps: steps.iter().map(enc).collect(),
                violation: Violation {
                    property: property.to_string(),
                    oracle: "harness_panic".into(),
                    key: String::new(),
                    detail: msg.clone(),
                    step: 0,
                },
                original_steps: steps.len(),
                history: vec![],
            };
            let _ = std::fs::create_dir_all(format!("{}/replays", ctx.verif_dir));
            let _ = std::fs::write(&path, serde_json::to_string_pretty(&rf).unwrap());
            rep.harness_error = Some(format!(
                "panic escaped scenario {} seed={} run={}: {} (plan at {})",
                s.name(),
                ctx.seed,
                run,
                msg,
                path
            ));
        } else if let Some((run, v)) = first_bad {
            let (cfg, steps) = s.generate(ctx.seed, run, ctx.tier, property);
            let original = steps.len();
            let (mcfg, msteps, mv, execs) = shrink(s, cfg, steps, &v, &ctx.known);
            // Final recorded execution of the minimised plan.
            let r = exec_once(s, &mcfg, &msteps, property, &ctx.known, true);
            let path = format!(
                "{}/replays/{}-{}-{}-{}.json",
                ctx.verif_dir,
                property,
                s.name(),
                ctx.seed,
                run
            );
            let rf = ReplayFile {
                version: 1,
                scenario: s.name().to_string(),
                property: property.to_string(),
                seed: ctx.seed,
                run,
                cfg: enc(&mcfg),
                steps: msteps.iter().map(enc).collect(),
                violation: mv.clone(),
                original_steps: original,
                history: r.obs.history.clone(),
            };
            let _ = std::fs::create_dir_all(format!("{}/replays", ctx.verif_dir));
            std::fs::write(&path, serde_json::to_string_pretty(&rf).unwrap()).expect("write replay");
            eprintln!(
                "[{}] violation in run {} minimised from {} to {} steps with {} executions",
                s.name(),
                run,
                original,
                msteps.len(),
                execs
            );
            if ctx.verify_replay {
                // Fresh-process replay must reproduce.
                let exe = std::env::current_exe().expect("exe");
                let out = std::process::Command::new(exe)
                    .arg("replay")
                    .arg(&path)
                    .arg("--quiet")
                    .env("VERIF_DIR", &ctx.verif_dir)
                    .output();
                match out {
                    Ok(o) if o.status.code() == Some(1) => {
                        let so = String::from_utf8_lossy(&o.stdout);
                        if !so.contains(&format!("oracle={}", mv.oracle)) {
                            rep.harness_error = Some(format!(
                                "replay of {path} reproduced a different violation: {so}"
                            ));
                        }
                    }
                    Ok(o) => {
                        rep.harness_error = Some(format!(
                            "replay of {path} in a fresh process did not reproduce (exit {:?})",
                            o.status.code()
                        ));
                    }
                    Err(e) => {
                        rep.harness_error = Some(format!("cannot spawn replay: {e}"));
                    }
                }
            }
            rep.violation = Some((mv, path));
        }
        rep.wall_s = t0.elapsed().as_secs_f64();
        rep
    }

    fn replay(&self, file: &ReplayFile, known: &Arc<Known>) -> Option<ReplayOutcome> {
        if file.scenario != self.s.name() {
            return None;
        }
        let cfg: S::Cfg = match dec(&file.cfg) {
            Ok(c) => c,
            Err(e) => {
                eprintln!("HARNESS-ERROR: cannot decode cfg: {e}");
                std::process::exit(2);
            }
        };
        let steps: Vec<S::Step> = file
            .steps
            .iter()
            .map(|v| {
                dec(v).unwrap_or_else(|e| {
                    eprintln!("HARNESS-ERROR: cannot decode step: {e}");
                    std::process::exit(2);
                })
            })
            .collect();
        let r = exec_once(&self.s, &cfg, &steps, &file.property, known, true);
        let v = r
            .obs
            .violations
            .iter()
            .find(|x| x.property == file.property)
            .cloned();
        Some(ReplayOutcome {
            history: r.obs.history,
            violation: v,
            panic: r.panic,
        })
    }

    fn hashes(&self, property: &str, seed: u64, tier: Tier, n: u64, threads: usize) -> Vec<u64> {
        let known = Arc::new(Known::default());
        let out = Mutex::new(vec![0u64; n as usize]);
        let next = AtomicU64::new(0);
        std::thread::scope(|scope| {
            for _ in 0..threads.max(1) {
                scope.spawn(|| loop {
                    let run = next.fetch_add(1, Ordering::Relaxed);
                    if run >= n {
                        break;
                    }
                    let (cfg, steps) = self.s.generate(seed, run, tier, property);
                    let r = exec_once(&self.s, &cfg, &steps, property, &known, true);
                    let mut h = r.hash;
                    // include the outcome summary so that silent divergence in counters is seen too
                    h = mix(&[h, r.obs.steps, r.obs.ops_ok, r.obs.ops_failed, r.obs.oracle_evals, r.obs.violations.len() as u64]);
                    if let Some(p) = &r.panic {
                        h = mix(&[h, crate::rng::hash_str(p)]);
                    }
                    out.lock().unwrap()[run as usize] = h;
                });
            }
        });
        out.into_inner().unwrap()
    }
}
