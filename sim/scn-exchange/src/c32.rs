//! C32 — builder fees. No instruction of the store checkpoints a builder onto an order yet (the program's
//! comments announce a future `set_builder_fee`); the simulator plays that future instruction by writing the
//! `builder` and `builder_fee_factor` fields of a pending order account (declared as a stub), after which the
//! real execution and settlement code runs.

use std::sync::OnceLock;

use gmsol_store::states::Order;
use solana_program::{instruction::Instruction, pubkey::Pubkey};

use chainsim::deploy::{ata, read_pod, store_ix, Dep};
use chainsim::ex::{user_pda, TOKEN_PROGRAM};
use chainsim::rt::World;

/// Byte offsets (within the account data, discriminator included) of `builder` and `builder_fee_factor`,
/// discovered through the public accessors so that a layout change cannot silently corrupt other fields.
pub fn offsets(sample: &[u8]) -> Option<(usize, usize, usize)> {
    static OFF: OnceLock<Option<(usize, usize, usize)>> = OnceLock::new();
    *OFF.get_or_init(|| {
        let n = std::mem::size_of::<Order>();
        if sample.len() < 8 + n {
            return None;
        }
        let base: Order = bytemuck::pod_read_unaligned(&sample[8..8 + n]);
        let probe_key = Pubkey::new_from_array([0xA7; 32]);
        let mut builder_off = None;
        let mut factor_off = None;
        let mut off = 8;
        while off + 32 <= 8 + n {
            let mut b = sample[..8 + n].to_vec();
            b[off..off + 32].copy_from_slice(probe_key.as_ref());
            let o: Order = bytemuck::pod_read_unaligned(&b[8..8 + n]);
            if o.builder() == Some(&probe_key) && base.builder().is_none() {
                builder_off = Some(off);
                break;
            }
            off += 8;
        }
        let probe_factor: u128 = 0x1234_5678_9abc_def0_0fed_cba9_8765_4321;
        let mut off = 8;
        while off + 16 <= 8 + n {
            let mut b = sample[..8 + n].to_vec();
            b[off..off + 16].copy_from_slice(&probe_factor.to_le_bytes());
            let o: Order = bytemuck::pod_read_unaligned(&b[8..8 + n]);
            if o.builder_fee_factor() == probe_factor && base.builder_fee_factor() == 0 {
                factor_off = Some(off);
                break;
            }
            off += 8;
        }
        let probe_amount: u64 = 0x0102_0304_0506_0708;
        let mut amount_off = None;
        let mut off = 8;
        while off + 8 <= 8 + n {
            let mut b = sample[..8 + n].to_vec();
            b[off..off + 8].copy_from_slice(&probe_amount.to_le_bytes());
            let o: Order = bytemuck::pod_read_unaligned(&b[8..8 + n]);
            if o.builder_fee_amount() == probe_amount && base.builder_fee_amount() == 0 {
                amount_off = Some(off);
                break;
            }
            off += 8;
        }
        Some((builder_off?, factor_off?, amount_off?))
    })
}

/// Stub of the unreachable charging path: record `(builder user account, factor, charged amount)` on an
/// order, exactly the three fields the announced `set_builder_fee` + execution would have written.
pub fn forge_builder(w: &mut World, order: &Pubkey, builder_user: &Pubkey, factor: u128, recorded: u64) -> bool {
    let Some(acc) = w.accounts.get(order) else { return false };
    let Some((bo, fo, ao)) = offsets(&acc.data) else { return false };
    let acc = w.accounts.get_mut(order).unwrap();
    acc.data[bo..bo + 32].copy_from_slice(builder_user.as_ref());
    acc.data[fo..fo + 16].copy_from_slice(&factor.to_le_bytes());
    acc.data[ao..ao + 8].copy_from_slice(&recorded.to_le_bytes());
    true
}

pub fn recorded_fee(w: &World, order: &Pubkey) -> Option<u64> {
    read_pod::<Order>(w, order).map(|o| o.builder_fee_amount())
}

pub fn settle_ix(w: &World, d: &Dep, order: &Pubkey, builder_owner: &Pubkey) -> Option<(Vec<Instruction>, Pubkey)> {
    let o: Order = read_pod(w, order)?;
    let token = o.tokens().final_output_token().token()?;
    let escrow = ata(order, &token);
    let builder_user = user_pda(d, builder_owner);
    let claim_vault = ata(&builder_user, &token);
    let ixs = vec![
        chainsim::ex::create_ata_ix(&d.keeper, &builder_user, &token),
        store_ix(
            gmsol_store::accounts::SettleBuilderFee {
                store: d.store,
                order: *order,
                final_output_token: token,
                escrow,
                builder_user: Some(builder_user),
                claim_vault: Some(claim_vault),
                token_program: TOKEN_PROGRAM,
                event_authority: d.event_authority,
                program: gmsol_store::ID,
            },
            gmsol_store::instruction::SettleBuilderFee {},
        ),
    ];
    Some((ixs, claim_vault))
}

/// Reference fee: executed size × factor converted at the minimum price, rounded up. Both admissible
/// placements of the intermediate rounding are returned.
pub fn reference_fee(size_usd: u128, factor: u128, min_price: u128) -> Option<(u128, u128)> {
    use simcore::big::{bu, to_u128};
    if min_price == 0 {
        return None;
    }
    let unit = bu(100_000_000_000_000_000_000);
    let value_floor = bu(size_usd) * bu(factor) / &unit;
    let a = (&value_floor + bu(min_price) - bu(1)) / bu(min_price);
    let num = bu(size_usd) * bu(factor);
    let den = &unit * bu(min_price);
    let b = (&num + &den - bu(1)) / &den;
    Some((to_u128(&a)?, to_u128(&b)?))
}
