//! Scenario `exchange`: owners (LPs, traders, swappers), an order keeper, a price keeper and strangers drive
//! deposits, withdrawals, shifts and orders over several markets that share vaults, with transaction loss,
//! duplication (keeper retries), stale prices, soft and hard execution failures, party crashes, dust transfers
//! and byzantine twins. Serves C22, C23, C44, C19 (keeper / owner-gated instructions), C21 (chain part), C09.

use std::collections::BTreeMap;

use anchor_lang::{AnchorDeserialize, Discriminator};
use gmsol_model::{Balance, PoolKind};
use gmsol_store::states::common::action::{Action, ActionState};
use gmsol_store::states::{Market, Position};
use serde::{Deserialize, Serialize};
use simcore::{Components, Obs, Rng, Scenario, Tier};
use solana_program::{instruction::Instruction, pubkey::Pubkey};
use strum::IntoEnumIterator;

use chainsim::deploy::{ata, deploy_full, read_pod, store_ix, token_balance, vault_of, Dep, DeployOpts, TokenSpec};
use chainsim::ex::{self, DepositArgs, OrderArgs, OrderKind, ShiftArgs, WithdrawalArgs};
use chainsim::report::ReportSpec;
use chainsim::rt::{TxOpts, TxOutcome, World};

pub const USD: u128 = 100_000_000_000_000_000_000;
const E18: i128 = 1_000_000_000_000_000_000;
/// (index token, long token, short token) of the deployed markets; tokens: 0 SOL(9), 1 USDC(6), 2 BTC(synthetic, 8), 3 ETH(8).
pub const MARKETS: [(usize, usize, usize); 5] = [(0, 0, 1), (2, 0, 1), (0, 0, 0), (3, 3, 1), (3, 0, 3)];

#[derive(Clone, Debug, Serialize, Deserialize)]
pub struct Cfg {
    pub n_users: usize,
    /// Fee / impact parameter set index.
    pub params: u8,
    pub twins: bool,
    pub faults: bool,
    /// Create markets forming swap paths (4 tokens, 4 markets) instead of the small world.
    pub big_world: bool,
    /// C40: decode every market with the SDK model and replay executions on it.
    #[serde(default)]
    pub sdk_diff: bool,
}

#[derive(Clone, Copy, Debug, Serialize, Deserialize, PartialEq, Eq)]
pub enum By {
    Owner,
    Keeper,
    Stranger,
}

#[derive(Clone, Debug, Serialize, Deserialize)]
pub enum Step {
    Advance { secs: i64 },
    /// Price keeper posts fresh reports: price per token in 1e-2 USD, spread in bps.
    Prices { cents: Vec<u64>, spread_bps: u16 },
    Deposit { user: usize, market: usize, long: u64, short: u64, min_mt: u64, long_path: Vec<usize>, short_path: Vec<usize>, lt: Option<usize>, st: Option<usize> },
    Withdraw { user: usize, market: usize, bps: u16, min_long: u64, min_short: u64, long_path: Vec<usize>, short_path: Vec<usize>, lt: Option<usize>, st: Option<usize> },
    Shift { user: usize, from: usize, to: usize, bps: u16, min_to: u64 },
    Order { user: usize, market: usize, kind: u8, is_long: bool, collat_long: bool, collateral: u64, size_usd: u64, path: Vec<usize>, min_output: Option<u64>, acceptable_cents: Option<u64>, tin: Option<usize>, tout: Option<usize> },
    Execute { slot: usize, throw: bool },
    Close { slot: usize, by: By },
    Liquidate { pos: usize },
    UpdateFees { market: usize },
    /// A stranger sends tokens directly to a vault (0) or an escrow of action `slot` (1).
    Dust { token: usize, to: u8, slot: usize, amount: u64 },
    /// Fault: the keeper's execute of action `slot` is delivered a second time.
    DupExecute { slot: usize },
    /// C32 stub of the future `set_builder_fee`: checkpoint a builder (user index) and a fee factor (in
    /// 1e-6 units of 100 %) onto the pending order `slot`.
    ForgeBuilder { slot: usize, builder: usize, factor_ppm: u32 },
    /// The fee receiver claims the accrued receiver fees of a market side.
    ClaimFees { market: usize, long_side: bool },
    /// The market keeper tops a market up from the stranger's token account (keeper transfer).
    TransferIn { market: usize, long_side: bool, amount: u64 },
    /// Keeper refreshes the ADL-enabled flag of a market side.
    UpdateAdl { market: usize, is_long: bool },
    /// Keeper auto-deleverages position `pos` (usize::MAX = the most recent one) by `size_usd`.
    Adl { pos: usize, size_usd: u64 },
    /// Settle the builder fee of order `slot` (`twice`: the settlement is delivered two times).
    SettleBuilderFee { slot: usize, twice: bool },
}

#[derive(Clone, Copy, Debug, PartialEq, Eq)]
pub enum Kind {
    Deposit,
    Withdrawal,
    Shift,
    Order,
}

#[derive(Clone, Copy, Debug, PartialEq, Eq)]
pub enum St {
    Pending,
    Completed,
    Cancelled,
    Closed,
}

pub struct Act {
    pub kind: Kind,
    pub key: Pubkey,
    pub owner: usize,
    pub st: St,
    /// Escrow token accounts of this action (mint, account).
    pub escrows: Vec<(Pubkey, Pubkey)>,
    /// Tokens moved into escrow at creation (mint, amount).
    pub escrowed: Vec<(Pubkey, u64)>,
    /// For swap orders: declared path (market indices), token in, token out.
    pub swap: Option<(Vec<usize>, usize, usize)>,
    pub order_kind: Option<OrderKind>,
    pub position: Option<Pubkey>,
    pub executed_once: bool,
    /// (market, long amount, short amount) of a deposit without swap paths / (market, amount) of a withdrawal.
    pub plain: Option<(usize, u64, u64)>,
    /// C32: (builder user index, factor, size_usd requested, collateral delta, market) once a builder has been checkpointed.
    pub builder: Option<(usize, u128)>,
    /// (size_delta_usd, collateral_delta, market index, is_collateral_long) of a position order.
    pub order_info: Option<(u128, u64, usize, bool)>,
}

pub struct Exchange;

/// A valid swap path found by walking the market list from `start` (real tokens only): up to `hops` markets,
/// no market twice, no single-token market; `first` forces the first market when it can convert `start`.
/// Returns the path and the token it ends in.
fn walk(p: &mut Rng, start: usize, hops: usize, n_markets: usize, first: Option<usize>) -> (Vec<usize>, usize) {
    let mut cur = start;
    let mut path = vec![];
    for h in 0..hops {
        let mut cands: Vec<usize> = (0..n_markets).filter(|m| !path.contains(m) && MARKETS[*m].1 != MARKETS[*m].2 && (MARKETS[*m].1 == cur || MARKETS[*m].2 == cur)).collect();
        if h == 0 {
            if let Some(f) = first {
                if cands.contains(&f) {
                    cands = vec![f];
                }
            }
        }
        if cands.is_empty() {
            break;
        }
        let m = *p.pick(&cands);
        cur = if MARKETS[m].1 == cur { MARKETS[m].2 } else { MARKETS[m].1 };
        path.push(m);
    }
    (path, cur)
}

fn kinds() -> [OrderKind; 6] {
    [OrderKind::MarketIncrease, OrderKind::MarketDecrease, OrderKind::MarketSwap, OrderKind::LimitIncrease, OrderKind::LimitDecrease, OrderKind::LimitSwap]
}

impl Scenario for Exchange {
    type Cfg = Cfg;
    type Step = Step;

    fn name(&self) -> &'static str {
        "exchange"
    }

    fn generate(&self, seed: u64, run: u64, tier: Tier, focus: &str) -> (Cfg, Vec<Step>) {
        let mut c = Rng::derive(seed, run, "ex.cfg");
        let mut p = Rng::derive(seed, run, "ex.plan");
        let cfg = Cfg {
            n_users: c.usize(2, 3),
            params: if focus == "C09" && c.chance(1, 2) { 5 } else { c.below(6) as u8 },
            twins: focus == "C19" || c.chance(1, 10),
            faults: c.chance(2, 3),
            big_world: focus == "C44" || c.chance(1, 2),
            sdk_diff: focus == "C40" || c.chance(1, 10),
        };
        let n_markets = if cfg.big_world { 5 } else { 3 };
        let n_tokens = if cfg.big_world { 4 } else { 3 };
        let mut len = if p.chance(3, 4) { p.usize(8, 50) } else { p.usize(50, 140) };
        if tier == Tier::Thorough {
            len += len / 2;
        }
        let base_cents: Vec<u64> = vec![15_000, 100, 6_000_000, 250_000];
        let mut cents = base_cents[..n_tokens].to_vec();
        let mut steps = vec![Step::Prices { cents: cents.clone(), spread_bps: 2 }];
        // seed liquidity so that most histories are meaningful
        for m in 0..n_markets {
            steps.push(Step::Deposit { user: 0, market: m, long: p.range(50, 400) * 1_000_000_000, short: p.range(5_000, 60_000) * 1_000_000, min_mt: 0, long_path: vec![], short_path: vec![], lt: None, st: None });
            steps.push(Step::Execute { slot: m, throw: true });
        }
        let mut n_actions = n_markets;
        let path = |p: &mut Rng, n: usize| -> Vec<usize> {
            if p.chance(1, 2) {
                vec![]
            } else {
                let hi = if p.chance(1, 8) { 10 } else { 3 };
                let l = p.usize(1, hi);
                (0..l).map(|_| p.usize(0, n - 1)).collect()
            }
        };
        for _ in 0..len {
            let user = p.usize(0, cfg.n_users - 1);
            let market = p.usize(0, n_markets - 1);
            // ADL: a large position, a favourable price move, flag refresh, auto-deleverage attempts.
            if cfg.params == 5 && p.chance(1, 6) {
                let mdef = MARKETS[market];
                let is_long = p.bool();
                let collat_long = p.bool();
                let ctoken = if collat_long { mdef.1 } else { mdef.2 };
                let collat_usd_cents = p.range(100_000, 800_000);
                let dec = [9u32, 6, 8, 8][ctoken];
                let collateral = (collat_usd_cents as u128 * 10u128.pow(dec) / cents[ctoken].max(1) as u128) as u64;
                let lev = *p.pick(&[1u64, 2, 3]);
                steps.push(Step::Prices { cents: cents.clone(), spread_bps: 2 });
                n_actions += 1;
                steps.push(Step::Order { user, market, kind: 0, is_long, collat_long, collateral, size_usd: (collat_usd_cents / 100).max(1) * lev, path: vec![], min_output: None, acceptable_cents: None, tin: None, tout: None });
                steps.push(Step::Execute { slot: n_actions - 1, throw: true });
                let bps = *p.pick(&[0u64, 300, 1000, 2500, 5000]);
                let idx = mdef.0;
                let d = (cents[idx] as u128 * bps as u128 / 10_000) as u64;
                let favourable = p.chance(4, 5);
                cents[idx] = if is_long == favourable { cents[idx].saturating_add(d) } else { cents[idx].saturating_sub(d).max(1) };
                steps.push(Step::Prices { cents: cents.clone(), spread_bps: 2 });
                if p.chance(4, 5) {
                    steps.push(Step::UpdateAdl { market, is_long });
                }
                let size = (collat_usd_cents / 100).max(1) * lev;
                steps.push(Step::Adl { pos: usize::MAX, size_usd: *p.pick(&[1u64, size / 10 + 1, size / 2 + 1, size, size * 2]) });
                if p.chance(1, 2) {
                    steps.push(Step::Adl { pos: usize::MAX, size_usd: size });
                }
                continue;
            }
            // A leveraged position followed by an adverse (or harmless) price move and a liquidation attempt.
            if focus == "C09" && p.chance(1, 5) {
                let mdef = MARKETS[market];
                let is_long = p.bool();
                let collat_long = p.bool();
                let ctoken = if collat_long { mdef.1 } else { mdef.2 };
                let collat_usd_cents = p.range(5_000, 200_000);
                let dec = [9u32, 6, 8, 8][ctoken];
                let collateral = (collat_usd_cents as u128 * 10u128.pow(dec) / cents[ctoken].max(1) as u128) as u64;
                let lev = *p.pick(&[5u64, 10, 20, 40, 80]);
                steps.push(Step::Prices { cents: cents.clone(), spread_bps: 2 });
                n_actions += 1;
                steps.push(Step::Order { user, market, kind: 0, is_long, collat_long, collateral, size_usd: (collat_usd_cents / 100).max(1) * lev, path: vec![], min_output: None, acceptable_cents: None, tin: None, tout: None });
                steps.push(Step::Execute { slot: n_actions - 1, throw: true });
                // move the index token against (or, sometimes, for) the position
                let bps = *p.pick(&[0u64, 50, 200, 500, 1000, 2000, 4000]);
                let against = p.chance(4, 5);
                let down = is_long == against;
                let idx = mdef.0;
                let d = (cents[idx] as u128 * bps as u128 / 10_000) as u64;
                cents[idx] = if down { cents[idx].saturating_sub(d).max(1) } else { cents[idx].saturating_add(d) };
                if p.chance(1, 3) {
                    steps.push(Step::Advance { secs: *p.pick(&[1i64, 600, 86_400]) });
                }
                steps.push(Step::Prices { cents: cents.clone(), spread_bps: 2 });
                steps.push(Step::Liquidate { pos: usize::MAX });
                continue;
            }
            // A trader's round trip: open, (price move), reduce or close, with an optional builder what-if.
            if p.chance(1, if focus == "C32" { 6 } else { 25 }) {
                let mdef = MARKETS[market];
                let is_long = p.bool();
                let collat_long = p.bool();
                let ctoken = if collat_long { mdef.1 } else { mdef.2 };
                let collat_usd_cents = p.range(2_000, 500_000);
                let dec = [9u32, 6, 8, 8][ctoken];
                let collateral = (collat_usd_cents as u128 * 10u128.pow(dec) / cents[ctoken].max(1) as u128) as u64;
                let lev = *p.pick(&[1u64, 2, 5, 10, 20]);
                let size_usd = (collat_usd_cents / 100).max(1) * lev;
                steps.push(Step::Prices { cents: cents.clone(), spread_bps: 2 });
                n_actions += 1;
                steps.push(Step::Order { user, market, kind: 0, is_long, collat_long, collateral, size_usd, path: vec![], min_output: None, acceptable_cents: None, tin: None, tout: None });
                if p.chance(1, 2) {
                    steps.push(Step::ForgeBuilder { slot: n_actions - 1, builder: p.usize(0, cfg.n_users - 1), factor_ppm: *p.pick(&[0u32, 1, 100, 1_000, 10_000, 200_000]) });
                }
                steps.push(Step::Execute { slot: n_actions - 1, throw: p.bool() });
                if p.chance(1, 3) {
                    steps.push(Step::Advance { secs: *p.pick(&[1i64, 60, 3000]) });
                }
                if p.chance(1, 2) {
                    for c in cents.iter_mut() {
                        let bps = p.range(0, 300);
                        let d = (*c as u128 * bps as u128 / 10_000) as u64;
                        *c = if p.bool() { c.saturating_add(d) } else { c.saturating_sub(d).max(1) };
                    }
                }
                steps.push(Step::Prices { cents: cents.clone(), spread_bps: 2 });
                n_actions += 1;
                let full = p.chance(1, 2);
                steps.push(Step::Order { user, market, kind: 1, is_long, collat_long, collateral: if p.chance(1, 3) { collateral / 5 } else { 0 }, size_usd: if full { u64::MAX / 1_000_000_000 } else { (size_usd / 2).max(1) }, path: vec![], min_output: None, acceptable_cents: None, tin: None, tout: None });
                let with_builder = p.chance(2, 3);
                if with_builder {
                    steps.push(Step::ForgeBuilder { slot: n_actions - 1, builder: p.usize(0, cfg.n_users - 1), factor_ppm: *p.pick(&[1u32, 100, 1_000, 10_000, 200_000, 900_000]) });
                }
                steps.push(Step::Execute { slot: n_actions - 1, throw: p.bool() });
                if with_builder {
                    steps.push(Step::SettleBuilderFee { slot: n_actions - 1, twice: p.bool() });
                }
                steps.push(Step::Close { slot: n_actions - 1, by: By::Owner });
                continue;
            }
            let w = match focus {
                "C32" => *p.pick(&[5u64, 6, 36, 37, 38, 39, 40, 41, 42, 43, 98, 98, 98, 60, 61, 62, 63, 64, 99, 99, 99, 80, 81]),
                "C44" => *p.pick(&[12u64, 13, 22, 30, 40, 41, 42, 43, 44, 50, 51, 52, 60, 61, 62, 63, 64, 65, 66, 80, 2, 5]),
                _ => p.below(100),
            };
            let s = match w {
                0..=4 => Step::Advance { secs: *p.pick(&[0i64, 1, 5, 30, 60, 119, 121, 600, 3599, 3601, 86_400, 30 * 86_400]) },
                5..=11 => {
                    // random walk, occasional jump
                    for c in cents.iter_mut() {
                        let bps = if p.chance(1, 12) { p.range(500, 4000) } else { p.range(0, 150) };
                        let d = (*c as u128 * bps as u128 / 10_000) as u64;
                        *c = if p.bool() { c.saturating_add(d) } else { c.saturating_sub(d).max(1) };
                    }
                    Step::Prices { cents: cents.clone(), spread_bps: *p.pick(&[0u16, 1, 2, 10, 50]) }
                }
                12..=21 => {
                    n_actions += 1;
                    let both = p.chance(1, 2);
                    let long = if both || p.bool() { p.log_u64(200_000_000_000) } else { 0 };
                    let short = if both || long == 0 { p.log_u64(30_000_000_000) } else { 0 };
                    let with_paths = cfg.big_world && p.chance(1, 3);
                    let mdef = MARKETS[market];
                    // 2/3 of the pathed deposits pay with a token from which a valid path leads to the pool token
                    // (the walk is done from the pool token and reversed), 1/3 are arbitrary (mostly invalid)
                    let valid = p.chance(2, 3);
                    let hops = p.usize(1, 2);
                    let (lp, lt) = if with_paths && valid { let (mut w, t) = walk(&mut p, mdef.1, hops, n_markets, None); w.reverse(); (w, Some(t)) } else if with_paths { (path(&mut p, n_markets), Some(p.usize(0, n_tokens - 1))) } else { (vec![], None) };
                    let (sp, st) = if with_paths && valid && mdef.1 != mdef.2 { let (mut w, t) = walk(&mut p, mdef.2, hops, n_markets, None); w.reverse(); (w, Some(t)) } else if with_paths && !valid { (path(&mut p, n_markets), Some(p.usize(0, n_tokens - 1))) } else { (vec![], None) };
                    Step::Deposit { user, market, long, short, min_mt: if p.chance(1, 6) { u64::MAX / 2 } else { 0 }, long_path: lp, short_path: sp, lt, st }
                }
                22..=29 => {
                    n_actions += 1;
                    let with_paths = cfg.big_world && p.chance(1, 3);
                    let mdef = MARKETS[market];
                    let valid = p.chance(2, 3);
                    let hops = p.usize(1, 3);
                    // the path may start with the withdrawal's own market (funds leave it and come back converted)
                    let own_first = if p.chance(1, 3) { Some(market) } else { None };
                    let (lp, lt) = if with_paths && valid { let (w, t) = walk(&mut p, mdef.1, hops, n_markets, own_first); (w, Some(t)) } else if with_paths { (path(&mut p, n_markets), Some(p.usize(0, n_tokens - 1))) } else { (vec![], None) };
                    let (sp, st) = if with_paths && valid && mdef.1 != mdef.2 { let (w, t) = walk(&mut p, mdef.2, hops, n_markets, own_first); (w, Some(t)) } else if with_paths && !valid { (path(&mut p, n_markets), Some(p.usize(0, n_tokens - 1))) } else { (vec![], None) };
                    Step::Withdraw { user, market, bps: *p.pick(&[1u16, 100, 2500, 5000, 10_000]), min_long: if p.chance(1, 6) { u64::MAX / 2 } else { 0 }, min_short: 0, long_path: lp, short_path: sp, lt, st }
                }
                30..=33 => {
                    n_actions += 1;
                    Step::Shift { user, from: market, to: p.usize(0, n_markets - 1), bps: *p.pick(&[100u16, 2500, 10_000]), min_to: if p.chance(1, 6) { u64::MAX / 2 } else { 0 } }
                }
                34..=55 => {
                    n_actions += 1;
                    let kind = *p.pick(&[0u8, 0, 0, 1, 1, 2, 2, 2, 3, 4, 5]);
                    let is_swap = kind == 2 || kind == 5;
                    let mdef = MARKETS[market];
                    if is_swap {
                        // 60 %: a valid path found by walking the market list from a real token
                        let tin = *p.pick(&[0usize, 1, 3][..if cfg.big_world { 3 } else { 2 }]);
                        let (pth, tout) = if p.chance(3, 5) {
                            let mut cur = tin;
                            let mut pth = vec![];
                            let hops = p.usize(1, if cfg.big_world { 3 } else { 1 });
                            for _ in 0..hops {
                                let cands: Vec<usize> = (0..n_markets).filter(|m| !pth.contains(m) && MARKETS[*m].1 != MARKETS[*m].2 && (MARKETS[*m].1 == cur || MARKETS[*m].2 == cur)).collect();
                                if cands.is_empty() {
                                    break;
                                }
                                let m = *p.pick(&cands);
                                cur = if MARKETS[m].1 == cur { MARKETS[m].2 } else { MARKETS[m].1 };
                                pth.push(m);
                            }
                            // near-valid: a token-consistent path that revisits one of its own markets
                            // ([X, Y, X] over markets sharing a pair) - invalid only because of the duplicate. Only in the C44
                            // batches, so that the plans of the other exchange-based checks are unchanged.
                            if focus == "C44" && pth.len() >= 2 && p.chance(1, 5) {
                                let again: Vec<usize> = pth.iter().copied().filter(|m| MARKETS[*m].1 != MARKETS[*m].2 && (MARKETS[*m].1 == cur || MARKETS[*m].2 == cur)).collect();
                                if !again.is_empty() {
                                    let m = *p.pick(&again);
                                    cur = if MARKETS[m].1 == cur { MARKETS[m].2 } else { MARKETS[m].1 };
                                    pth.push(m);
                                }
                            }
                            (pth, cur)
                        } else {
                            (path(&mut p, n_markets), p.usize(0, n_tokens - 1))
                        };
                        // amount worth 1 .. 20 000 USD of the input token
                        let usd_cents = p.log_u64(2_000_000).max(100);
                        let dec = [9u32, 6, 8, 8][tin];
                        let amount = (usd_cents as u128 * 10u128.pow(dec) / cents[tin].max(1) as u128) as u64;
                        Step::Order { user, market: pth.first().copied().unwrap_or(market), kind, is_long: true, collat_long: true, collateral: amount, size_usd: 0, path: pth, min_output: if p.chance(1, 6) { Some(u64::MAX / 4) } else { Some(0) }, acceptable_cents: None, tin: Some(tin), tout: Some(tout) }
                    } else {
                        let collat_long = p.bool();
                        let ctoken = if collat_long { mdef.1 } else { mdef.2 };
                        let collat_usd_cents = p.log_u64(1_000_000).max(500);
                        let dec = [9u32, 6, 8, 8][ctoken];
                        let collateral = (collat_usd_cents as u128 * 10u128.pow(dec) / cents[ctoken].max(1) as u128) as u64;
                        let lev = *p.pick(&[1u64, 2, 5, 10, 20, 50, 90, 150]);
                        let size_usd = (collat_usd_cents / 100).max(1) * lev;
                        let dec_kind = kind == 1 || kind == 4;
                        // position orders with a valid swap path: increases pay with another token that is swapped
                        // into the collateral token, decreases swap the output into another token (the path may
                        // start with the position's own market)
                        if cfg.big_world && p.chance(1, 4) {
                            let hops = p.usize(1, 2);
                            let own_first = if p.chance(1, 3) { Some(market) } else { None };
                            let (mut w, t) = walk(&mut p, ctoken, hops, n_markets, own_first);
                            if !w.is_empty() {
                                let (tin, tout) = if dec_kind { (None, Some(t)) } else { w.reverse(); (Some(t), None) };
                                let amount = if dec_kind { 0 } else { (collat_usd_cents as u128 * 10u128.pow([9u32, 6, 8, 8][t]) / cents[t].max(1) as u128) as u64 };
                                steps.push(Step::Prices { cents: cents.clone(), spread_bps: 2 });
                                steps.push(Step::Order { user, market, kind, is_long: p.bool(), collat_long, collateral: amount, size_usd: if dec_kind { u64::MAX / 1_000_000_000 } else { size_usd }, path: w, min_output: None, acceptable_cents: None, tin, tout });
                                steps.push(Step::Execute { slot: n_actions - 1, throw: p.bool() });
                                continue;
                            }
                        }
                        Step::Order {
                            user,
                            market,
                            kind,
                            is_long: p.bool(),
                            collat_long,
                            collateral: if dec_kind { if p.chance(1, 3) { collateral / 4 } else { 0 } } else if p.chance(1, 10) { 0 } else { collateral },
                            size_usd: if dec_kind && p.chance(1, 3) { u64::MAX / 1_000_000_000 } else { size_usd },
                            path: if cfg.big_world && p.chance(1, 5) { path(&mut p, n_markets) } else { vec![] },
                            min_output: if p.chance(1, 8) { Some(u64::MAX / 4) } else { None },
                            acceptable_cents: if p.chance(1, 8) { Some(1) } else { None },
                            tin: if p.chance(1, 6) { Some(p.usize(0, n_tokens - 1)) } else { None },
                            tout: if p.chance(1, 6) { Some(p.usize(0, n_tokens - 1)) } else { None },
                        }
                    }
                }
                56..=77 => Step::Execute { slot: if p.chance(3, 4) { n_actions.saturating_sub(1) } else { p.usize(0, n_actions.max(1) - 1) }, throw: p.chance(1, 2) },
                78..=87 => Step::Close { slot: p.usize(0, n_actions.max(1) - 1), by: *p.pick(&[By::Owner, By::Owner, By::Keeper, By::Stranger]) },
                88..=90 => Step::Liquidate { pos: p.usize(0, 7) },
                91 => Step::UpdateFees { market },
                92 => Step::ClaimFees { market, long_side: p.bool() },
                93 => if p.bool() { Step::TransferIn { market, long_side: p.bool(), amount: p.log_u64(5_000_000_000) } } else { Step::UpdateFees { market } },
                94..=96 if cfg.faults => Step::Dust { token: p.usize(0, n_tokens - 1), to: p.below(2) as u8, slot: p.usize(0, n_actions.max(1) - 1), amount: p.log_u64(1_000_000_000) },
                97 if cfg.faults => Step::DupExecute { slot: p.usize(0, n_actions.max(1) - 1) },
                98 => Step::ForgeBuilder { slot: n_actions.saturating_sub(1), builder: p.usize(0, cfg.n_users - 1), factor_ppm: *p.pick(&[0u32, 1, 100, 1_000, 10_000, 50_000]) },
                99 => Step::SettleBuilderFee { slot: p.usize(0, n_actions.max(1) - 1), twice: p.bool() },
                _ => Step::Prices { cents: cents.clone(), spread_bps: 2 },
            };
            // most executes are preceded by fresh prices
            if matches!(s, Step::Execute { .. } | Step::Liquidate { .. } | Step::UpdateFees { .. } | Step::ClaimFees { .. }) && p.chance(4, 5) {
                steps.push(Step::Prices { cents: cents.clone(), spread_bps: 2 });
            }
            steps.push(s);
        }
        (cfg, steps)
    }

    fn execute(&self, cfg: &Cfg, steps: &[Step], obs: &mut Obs) {
        let mut sim = Sim::new(cfg);
        for (i, s) in steps.iter().enumerate() {
            obs.set_step(i);
            sim.step(s, obs);
            if obs.should_stop() {
                return;
            }
        }
        sim.drain(obs);
    }

    fn simplify_step(&self, s: &Step) -> Vec<Step> {
        match s {
            Step::Advance { secs } if *secs > 1 => vec![Step::Advance { secs: 1 }],
            Step::Deposit { user, market, long, short, min_mt, long_path, short_path, lt, st } if !long_path.is_empty() || !short_path.is_empty() => {
                vec![Step::Deposit { user: *user, market: *market, long: *long, short: *short, min_mt: *min_mt, long_path: vec![], short_path: vec![], lt: *lt, st: *st }]
            }
            _ => vec![],
        }
    }

    fn simplify_cfg(&self, c: &Cfg) -> Vec<Cfg> {
        let mut v = vec![];
        if c.twins {
            v.push(Cfg { twins: false, ..c.clone() });
        }
        if c.params != 0 {
            v.push(Cfg { params: 0, ..c.clone() });
        }
        v
    }

    fn components(&self) -> Components {
        Components {
            real: vec![
                "gmsol_store::entry: create/execute/close of deposits, withdrawals, shifts, orders (increase, decrease, swap; market and limit), liquidate, update_fees_state, price feed updates, prepare_user/position/trade event buffer, claimable accounts".into(),
                "gmsol-model actions executed inside the store program".into(),
                "SPL Token and Associated Token Account processors; mock Chainlink verifier".into(),
            ],
            stub: vec!["chainsim runtime (accounts db, loader, CPI, sysvars, system program)".into(), "signatures (a signer is a flag)".into(), "transport: loss/duplication/reordering are plan steps".into()],
        }
    }

    fn rule(&self) -> String {
        "plans of 8–210 steps by 2–3 owners, an order keeper, a price keeper and a stranger over 3–5 markets sharing vaults (one pure market; markets forming swap paths), after seeding liquidity; fee/impact/caps parameter sets drawn per run; faults: stale prices after clock jumps, soft-failing executes (min output / acceptable price unreachable), keeper retries (duplicate execute), closes by keeper/stranger, dust transfers, byzantine twins; distinct = (actor, op, outcome) trigrams + (action kind, state, outcome) fingerprints".into()
    }
}

pub struct Sim {
    pub w: World,
    pub d: Dep,
    pub acts: Vec<Act>,
    pub nonce: u64,
    pub twins: bool,
    pub stranger: Pubkey,
    pub positions: Vec<Pubkey>,
    pub dusted: bool,
    pub sdk_diff: bool,
}

fn nonce_bytes(n: u64) -> [u8; 32] {
    let mut b = [0u8; 32];
    b[..8].copy_from_slice(&n.to_le_bytes());
    b[31] = 0x5e;
    b
}

/// Everything of a market that a failed execution must not touch.
pub fn market_fingerprint(m: &Market) -> Vec<u128> {
    let mut v = vec![];
    for kind in PoolKind::iter() {
        if let Some(p) = m.pool(kind) {
            v.push(p.long_amount().unwrap_or(u128::MAX));
            v.push(p.short_amount().unwrap_or(u128::MAX));
        }
    }
    for ck in gmsol_model::ClockKind::iter() {
        v.push(m.clock(ck).unwrap_or(-1) as u128);
    }
    v.push(m.state().long_token_balance_raw() as u128);
    v.push(m.state().short_token_balance_raw() as u128);
    v.push(m.state().funding_factor_per_second() as u128);
    v.push(m.state().trade_count() as u128);
    v
}

impl Sim {
    pub fn new(cfg: &Cfg) -> Self {
        let mut w = World::new(1_700_000_000, 1000);
        let mut opts = DeployOpts::default();
        opts.tokens.push(TokenSpec { name: "BTC", decimals: 8, precision: 2, synthetic: true, schema: 3, heartbeat: 120 });
        opts.markets = MARKETS[..3].to_vec();
        if cfg.big_world {
            opts.tokens.push(TokenSpec { name: "ETH", decimals: 8, precision: 3, synthetic: false, schema: 3, heartbeat: 120 });
            opts.markets = MARKETS.to_vec();
        }
        opts.n_users = cfg.n_users;
        let d = deploy_full(&mut w, &opts);
        let stranger = w.new_key("stranger");
        w.fund(&stranger, 1_000_000_000_000);
        for t in d.tokens.iter().filter(|t| !t.synthetic) {
            let o = w.process(ex::create_ata_ix(&stranger, &stranger, &t.mint));
            assert!(o.ok);
            let o = w.process(spl_token::instruction::mint_to(&spl_token::ID, &t.mint, &ata(&stranger, &t.mint), &d.admin, &[], 1_000_000_000_000_000).unwrap());
            assert!(o.ok);
        }
        let mut s = Sim { w, d, acts: vec![], nonce: 0, twins: cfg.twins, stranger, positions: vec![], dusted: false, sdk_diff: cfg.sdk_diff };
        s.configure(cfg.params);
        s
    }

    fn set_cfg(&mut self, market: usize, key: &str, value: u128) {
        let o = self.w.process(store_ix(
            gmsol_store::accounts::UpdateMarketConfig { authority: self.d.keeper, store: self.d.store, market: self.d.markets[market].market },
            gmsol_store::instruction::UpdateMarketConfig { key: key.to_string(), value },
        ));
        assert!(o.ok, "set_cfg {key}");
    }

    fn configure(&mut self, params: u8) {
        for m in 0..self.d.markets.len() {
            self.set_cfg(m, "max_pool_amount_for_long_token", 1_000_000_000_000_000_000);
            self.set_cfg(m, "max_pool_amount_for_short_token", 1_000_000_000_000_000_000);
            self.set_cfg(m, "max_pool_value_for_deposit_for_long_token", 1_000_000_000_000 * USD);
            self.set_cfg(m, "max_pool_value_for_deposit_for_short_token", 1_000_000_000_000 * USD);
            self.set_cfg(m, "max_open_interest_for_long", 1_000_000_000 * USD);
            self.set_cfg(m, "max_open_interest_for_short", 1_000_000_000 * USD);
            match params {
                1 => {
                    // swap fees and impact on
                    self.set_cfg(m, "swap_fee_factor_for_positive_impact", USD / 2000);
                    self.set_cfg(m, "swap_fee_factor_for_negative_impact", USD / 1000);
                    self.set_cfg(m, "swap_impact_positive_factor", 1_000_000_000);
                    self.set_cfg(m, "swap_impact_negative_factor", 2_000_000_000);
                    self.set_cfg(m, "swap_impact_exponent", 2 * USD);
                }
                2 => {
                    // everything free
                    for k in ["order_fee_factor_for_positive_impact", "order_fee_factor_for_negative_impact", "position_impact_positive_factor", "position_impact_negative_factor", "borrowing_fee_factor_for_long", "borrowing_fee_factor_for_short", "funding_fee_factor"] {
                        self.set_cfg(m, k, 0);
                    }
                }
                3 => {
                    // expensive
                    self.set_cfg(m, "swap_fee_factor_for_positive_impact", USD / 100);
                    self.set_cfg(m, "swap_fee_factor_for_negative_impact", USD / 50);
                    self.set_cfg(m, "order_fee_factor_for_positive_impact", USD / 100);
                    self.set_cfg(m, "order_fee_factor_for_negative_impact", USD / 50);
                    self.set_cfg(m, "liquidation_fee_factor", USD / 100);
                }
                5 => {
                    // ADL reachable: tiny pnl-factor limits
                    self.set_cfg(m, "max_pnl_factor_for_long_adl", USD / 50);
                    self.set_cfg(m, "max_pnl_factor_for_short_adl", USD / 50);
                    self.set_cfg(m, "min_pnl_factor_after_long_adl", USD / 200);
                    self.set_cfg(m, "min_pnl_factor_after_short_adl", USD / 200);
                    self.set_cfg(m, "max_pnl_factor_for_long_trader", USD);
                    self.set_cfg(m, "max_pnl_factor_for_short_trader", USD);
                }
                4 => {
                    // high leverage allowed, heavy funding
                    self.set_cfg(m, "min_collateral_factor", USD / 500);
                    // keep the liquidation threshold below the validation threshold (a stricter liquidation
                    // threshold is a misconfiguration covered by marketsim's known-finding class)
                    self.set_cfg(m, "min_collateral_factor_for_liquidation", USD / 1000);
                    self.set_cfg(m, "funding_fee_factor", 200_000_000_000_000);
                    self.set_cfg(m, "funding_fee_increase_factor_per_second", 0);
                }
                _ => {}
            }
        }
    }

    fn user(&self, i: usize) -> Pubkey {
        self.d.users[i % self.d.users.len()]
    }

    fn next_nonce(&mut self) -> [u8; 32] {
        self.nonce += 1;
        nonce_bytes(self.nonce)
    }

    fn markets_snapshot(&self) -> Vec<Vec<u128>> {
        self.d.markets.iter().map(|m| read_pod::<Market>(&self.w, &m.market).map(|x| market_fingerprint(&x)).unwrap_or_default()).collect()
    }

    fn recorded(&self, market: usize) -> (u64, u64) {
        let m: Market = read_pod(&self.w, &self.d.markets[market].market).unwrap();
        (m.state().long_token_balance_raw(), m.state().short_token_balance_raw())
    }

    /// C22: vault solvency after a landed transaction.
    fn check_solvency(&mut self, obs: &mut Obs) {
        let mut per_token: BTreeMap<usize, u128> = BTreeMap::new();
        for (mi, mk) in self.d.markets.clone().iter().enumerate() {
            let Some(m) = read_pod::<Market>(&self.w, &mk.market) else { continue };
            let pool = |k: PoolKind| m.pool(k).map(|p| (p.long_amount().unwrap_or(0), p.short_amount().unwrap_or(0))).unwrap_or((0, 0));
            let (ll, ls) = pool(PoolKind::Primary);
            let (il, is) = pool(PoolKind::SwapImpact);
            let (fl, fs) = pool(PoolKind::ClaimableFee);
            let (cll, cls) = pool(PoolKind::CollateralSumForLong);
            let (csl, css) = pool(PoolKind::CollateralSumForShort);
            let (rl, rs) = (m.state().long_token_balance_raw() as u128, m.state().short_token_balance_raw() as u128);
            let pure = mk.long == mk.short;
            let checks: Vec<(&str, u128, u128, u128)> = if pure {
                vec![("pure", rl + rs, ll + ls + il + is + fl + fs, cll + cls + csl + css)]
            } else {
                vec![("long", rl, ll + il + fl, cll + csl), ("short", rs, ls + is + fs, cls + css)]
            };
            for (side, rec, pools, coll) in checks {
                obs.require(rec >= pools, "C22", "recorded_below_pools", || format!("side={side},pure={pure}"), || format!("market {mi} {side}: recorded balance {rec} < liquidity+impact+fees {pools}"));
                obs.require(rec >= coll, "C22", "recorded_below_collateral", || format!("side={side},pure={pure}"), || format!("market {mi} {side}: recorded balance {rec} < total collateral {coll}"));
            }
            *per_token.entry(mk.long).or_insert(0) += rl;
            *per_token.entry(mk.short).or_insert(0) += rs;
        }
        for (t, total) in per_token {
            let v = token_balance(&self.w, &self.d.vault(t)) as u128;
            obs.require(v >= total, "C22", "vault_below_recorded", || format!("token={t}"), || format!("vault of token {t} holds {v} < sum of recorded balances {total}"));
            if v > total {
                obs.probe("vault_above_recorded(dust)");
            }
        }
    }

    fn act_state(&self, a: &Act) -> St {
        let Some(acc) = self.w.get(&a.key) else { return St::Closed };
        if acc.owner != gmsol_store::ID {
            return St::Closed;
        }
        let st = match a.kind {
            Kind::Deposit => read_pod::<gmsol_store::states::Deposit>(&self.w, &a.key).and_then(|x| x.header().action_state().ok()),
            Kind::Withdrawal => read_pod::<gmsol_store::states::Withdrawal>(&self.w, &a.key).and_then(|x| x.header().action_state().ok()),
            Kind::Shift => read_pod::<gmsol_store::states::Shift>(&self.w, &a.key).and_then(|x| x.header().action_state().ok()),
            Kind::Order => read_pod::<gmsol_store::states::Order>(&self.w, &a.key).and_then(|x| x.header().action_state().ok()),
        };
        match st {
            Some(ActionState::Pending) => St::Pending,
            Some(ActionState::Completed) => St::Completed,
            Some(ActionState::Cancelled) => St::Cancelled,
            _ => St::Closed,
        }
    }

    /// C23: lifecycle transitions of every action after a landed transaction.
    fn check_lifecycle(&mut self, obs: &mut Obs) {
        for i in 0..self.acts.len() {
            let now = self.act_state(&self.acts[i]);
            let prev = self.acts[i].st;
            let ok = match (prev, now) {
                (a, b) if a == b => true,
                (St::Pending, _) => true,
                (St::Completed, St::Closed) | (St::Cancelled, St::Closed) => true,
                _ => false,
            };
            obs.require(ok, "C23", "illegal_transition", || format!("from={prev:?},to={now:?},kind={:?}", self.acts[i].kind), || format!("action {i} ({:?}) moved {prev:?} -> {now:?}", self.acts[i].kind));
            if prev != now {
                obs.fingerprint(&[3, self.acts[i].kind as u64, prev as u64, now as u64]);
            }
            self.acts[i].st = now;
        }
    }

    fn after_tx(&mut self, out: &TxOutcome, obs: &mut Obs) {
        if out.ok {
            self.check_solvency(obs);
            self.check_lifecycle(obs);
            if self.sdk_diff {
                for mi in 0..self.d.markets.len() {
                    let n = crate::c40::check_decoding(&self.w, &self.d, mi, obs);
                    obs.probe_n("c40_fields_compared", n);
                    obs.probe_n("tv_disagreements_checked", n);
                    obs.probe("c40_accounts_decoded_twice");
                    obs.probe("tv_programs");
                }
            }
        }
    }

    fn escrow_balances(&self, a: &Act) -> Vec<(Pubkey, u64)> {
        a.escrows.iter().map(|(m, acc)| (*m, token_balance(&self.w, acc))).collect()
    }

    fn twin(&mut self, pre: &World, ixs: &[Instruction], from: &Pubkey, name: &str, variant: &str, to: &Pubkey, obs: &mut Obs) {
        if !self.twins {
            return;
        }
        let forged: Vec<Instruction> = ixs
            .iter()
            .map(|ix| {
                let mut f = ix.clone();
                for m in f.accounts.iter_mut() {
                    if m.pubkey == *from {
                        m.pubkey = *to;
                    }
                }
                f
            })
            .collect();
        let mut f = pre.clone();
        let out = f.process_tx(&forged, &TxOpts::default());
        obs.fault("byzantine_twin");
        obs.probe(&format!("c19_twin:{name}"));
        obs.require(!out.ok, "C19", "stranger_accepted", || format!("ix={name},variant={variant}"), || format!("{name} signed by {variant} succeeded"));
    }

    pub fn step(&mut self, s: &Step, obs: &mut Obs) {
        match s {
            Step::Advance { secs } => {
                self.w.advance((*secs as u64 / 2).max(1), *secs);
                obs.sim_seconds += *secs as u64;
                if *secs > 3600 {
                    obs.fault("clock_jump_past_oracle_max_age");
                }
            }
            Step::Prices { cents, spread_bps } => {
                let now = self.w.clock.unix_timestamp;
                for (i, c) in cents.iter().enumerate() {
                    if i >= self.d.tokens.len() {
                        break;
                    }
                    let t = &self.d.tokens[i];
                    let price = *c as i128 * E18 / 100;
                    let delta = price * *spread_bps as i128 / 10_000;
                    let r = ReportSpec {
                        schema: t.schema,
                        feed_id: t.feed_id,
                        valid_from: now as u32,
                        observations_ts: now as u32,
                        expires_at: (now + 3600) as u32,
                        price,
                        bid: price - delta,
                        ask: price + delta,
                        market_status: 2,
                        last_update_ns: now as u64 * 1_000_000_000,
                    };
                    let out = self.w.process(ex::update_feed_ix(&self.d, i, &r, true));
                    obs.outcome("price_keeper", "update_feed", &out.class());
                }
            }
            Step::Deposit { user, market, long, short, min_mt, long_path, short_path, lt, st } => {
                let owner = self.user(*user);
                let nonce = self.next_nonce();
                let market = *market % self.d.markets.len();
                let nt = self.d.tokens.len();
                let clamp = |p: &Vec<usize>| p.iter().map(|m| m % self.d.markets.len()).collect::<Vec<_>>();
                let args = DepositArgs {
                    owner,
                    market,
                    nonce,
                    long_amount: *long,
                    short_amount: *short,
                    min_market_token: *min_mt,
                    execution_lamports: 5_000_000,
                    initial_long_token: lt.map(|t| t % nt).filter(|t| !self.d.tokens[*t].synthetic),
                    initial_short_token: st.map(|t| t % nt).filter(|t| !self.d.tokens[*t].synthetic),
                    long_path: clamp(long_path),
                    short_path: clamp(short_path),
                };
                let (ixs, key) = ex::create_deposit_tx(&self.d, &args);
                let out = self.w.process_tx(&ixs, &TxOpts::default());
                obs.outcome("owner", "create_deposit", &out.class());
                obs.event(|| format!("create_deposit m{market} long={long} short={short} -> {}", out.class()));
                let mk = self.d.markets[market].clone();
                let ltm = self.d.tokens[args.initial_long_token.unwrap_or(mk.long)].mint;
                let stm = self.d.tokens[args.initial_short_token.unwrap_or(mk.short)].mint;
                // C44: invalid paths must be rejected at creation
                self.check_deposit_paths(&args, &out, obs);
                let mut escrows = vec![(mk.market_token, ata(&key, &mk.market_token))];
                let mut escrowed = vec![];
                if *long > 0 {
                    escrows.push((ltm, ata(&key, &ltm)));
                    escrowed.push((ltm, *long));
                }
                if *short > 0 {
                    if ltm == stm && *long > 0 {
                        escrowed[0].1 += *short;
                    } else {
                        escrows.push((stm, ata(&key, &stm)));
                        escrowed.push((stm, *short));
                    }
                }
                self.acts.push(Act { kind: Kind::Deposit, key, owner: *user, st: if out.ok { St::Pending } else { St::Closed }, escrows, escrowed, swap: None, order_kind: None, position: None, executed_once: false, builder: None, order_info: None, plain: (args.long_path.is_empty() && args.short_path.is_empty() && args.initial_long_token.is_none() && args.initial_short_token.is_none()).then_some((market, *long, *short)) });
                self.after_tx(&out, obs);
            }
            Step::Withdraw { user, market, bps, min_long, min_short, long_path, short_path, lt, st } => {
                let owner = self.user(*user);
                let nonce = self.next_nonce();
                let market = *market % self.d.markets.len();
                let mk = self.d.markets[market].clone();
                let nt = self.d.tokens.len();
                let bal = token_balance(&self.w, &ata(&owner, &mk.market_token));
                let amount = (bal as u128 * *bps as u128 / 10_000) as u64;
                let clamp = |p: &Vec<usize>| p.iter().map(|m| m % self.d.markets.len()).collect::<Vec<_>>();
                let args = WithdrawalArgs {
                    owner,
                    market,
                    nonce,
                    market_token_amount: amount,
                    min_long: *min_long,
                    min_short: *min_short,
                    execution_lamports: 5_000_000,
                    final_long_token: lt.map(|t| t % nt).filter(|t| !self.d.tokens[*t].synthetic),
                    final_short_token: st.map(|t| t % nt).filter(|t| !self.d.tokens[*t].synthetic),
                    long_path: clamp(long_path),
                    short_path: clamp(short_path),
                };
                let (ixs, key) = ex::create_withdrawal_tx(&self.d, &args);
                let out = self.w.process_tx(&ixs, &TxOpts::default());
                obs.outcome("owner", "create_withdrawal", &out.class());
                let ltm = self.d.tokens[args.final_long_token.unwrap_or(mk.long)].mint;
                let stm = self.d.tokens[args.final_short_token.unwrap_or(mk.short)].mint;
                let mut escrows = vec![(mk.market_token, ata(&key, &mk.market_token)), (ltm, ata(&key, &ltm))];
                if stm != ltm {
                    escrows.push((stm, ata(&key, &stm)));
                }
                self.acts.push(Act { kind: Kind::Withdrawal, key, owner: *user, st: if out.ok { St::Pending } else { St::Closed }, escrows, escrowed: vec![(mk.market_token, amount)], swap: None, order_kind: None, position: None, executed_once: false, builder: None, order_info: None, plain: (args.long_path.is_empty() && args.short_path.is_empty() && args.final_long_token.is_none() && args.final_short_token.is_none()).then_some((market, amount, 0)) });
                self.after_tx(&out, obs);
            }
            Step::Shift { user, from, to, bps, min_to } => {
                let owner = self.user(*user);
                let nonce = self.next_nonce();
                let from = *from % self.d.markets.len();
                let to = *to % self.d.markets.len();
                let fm = self.d.markets[from].clone();
                let tm = self.d.markets[to].clone();
                let bal = token_balance(&self.w, &ata(&owner, &fm.market_token));
                let amount = (bal as u128 * *bps as u128 / 10_000) as u64;
                let (ixs, key) = ex::create_shift_tx(&self.d, &ShiftArgs { owner, from_market: from, to_market: to, nonce, amount, min_to: *min_to, execution_lamports: 5_000_000 });
                let out = self.w.process_tx(&ixs, &TxOpts::default());
                obs.outcome("owner", "create_shift", &out.class());
                let mut escrows = vec![(fm.market_token, ata(&key, &fm.market_token))];
                if tm.market_token != fm.market_token {
                    escrows.push((tm.market_token, ata(&key, &tm.market_token)));
                }
                self.acts.push(Act { kind: Kind::Shift, key, owner: *user, st: if out.ok { St::Pending } else { St::Closed }, escrows, escrowed: vec![(fm.market_token, amount)], swap: None, order_kind: None, position: None, executed_once: false, builder: None, order_info: None, plain: None });
                self.after_tx(&out, obs);
            }
            Step::Order { user, market, kind, is_long, collat_long, collateral, size_usd, path, min_output, acceptable_cents, tin, tout } => {
                let owner = self.user(*user);
                let nonce = self.next_nonce();
                let market = *market % self.d.markets.len();
                let mk = self.d.markets[market].clone();
                let nt = self.d.tokens.len();
                let k = kinds()[*kind as usize % 6];
                let swap = k.is_swap();
                let real = |t: Option<usize>| t.map(|t| t % nt).filter(|t| !self.d.tokens[*t].synthetic);
                let path: Vec<usize> = path.iter().map(|m| m % self.d.markets.len()).collect();
                let index_dec = self.d.tokens[mk.index].decimals as u32;
                let trigger = if k.is_market() {
                    None
                } else {
                    // a trigger at a price that is (usually) already satisfied is drawn elsewhere; use a permissive one
                    Some(if swap { 0 } else { 150 * 10u128.pow(20 - index_dec) })
                };
                let args = OrderArgs {
                    owner,
                    market,
                    nonce,
                    kind: k,
                    is_long: *is_long,
                    is_collateral_long: *collat_long,
                    collateral_delta: *collateral,
                    size_delta: *size_usd as u128 * USD,
                    execution_lamports: 5_000_000,
                    min_output: min_output.map(|v| v as u128),
                    trigger_price: trigger,
                    acceptable_price: acceptable_cents.map(|c| c as u128 * 10u128.pow(18 - index_dec)),
                    valid_from_ts: None,
                    initial_collateral_token: real(*tin),
                    final_output_token: real(*tout),
                    swap_path: path.clone(),
                    swap_type: None,
                };
                let (ixs, key, position) = ex::create_order_tx_opts(&self.d, &args, true);
                let out = self.w.process_tx(&ixs, &TxOpts::default());
                obs.outcome("owner", &format!("create_order_{k:?}"), &out.class());
                obs.event(|| format!("create_order {k:?} m{market} long={is_long} collat={collateral} size={size_usd} path={path:?} -> {}", out.class()));
                let collat_idx = if *collat_long { mk.long } else { mk.short };
                let tin_idx = args.initial_collateral_token.unwrap_or(collat_idx);
                let tout_idx = args.final_output_token.unwrap_or(collat_idx);
                if swap {
                    self.check_swap_path_creation(&path, tin_idx, tout_idx, &out, obs);
                }
                let long = self.d.tokens[mk.long].mint;
                let short = self.d.tokens[mk.short].mint;
                let mut escrows: Vec<(Pubkey, Pubkey)> = vec![];
                let mut add = |m: Pubkey| {
                    if !escrows.iter().any(|e| e.0 == m) {
                        escrows.push((m, ata(&key, &m)));
                    }
                };
                let mut escrowed = vec![];
                if ex::is_increase(k) || swap {
                    add(self.d.tokens[tin_idx].mint);
                    escrowed.push((self.d.tokens[tin_idx].mint, *collateral));
                }
                if !ex::is_increase(k) {
                    add(self.d.tokens[tout_idx].mint);
                }
                if !swap {
                    add(long);
                    add(short);
                }
                if let Some(p) = position {
                    if out.ok && !self.positions.contains(&p) {
                        self.positions.push(p);
                    }
                }
                self.acts.push(Act {
                    kind: Kind::Order,
                    key,
                    owner: *user,
                    st: if out.ok { St::Pending } else { St::Closed },
                    escrows,
                    escrowed,
                    swap: swap.then(|| (path.clone(), tin_idx, tout_idx)),
                    order_kind: Some(k),
                    position,
                    executed_once: false,
                    plain: None,
                    builder: None,
                    order_info: (!swap).then_some((args.size_delta, *collateral, market, *collat_long)),
                });
                self.after_tx(&out, obs);
            }
            Step::Execute { slot, throw } => self.execute(*slot, *throw, false, obs),
            Step::DupExecute { slot } => {
                obs.fault("duplicate_execute");
                self.execute(*slot, true, true, obs)
            }
            Step::Close { slot, by } => self.close(*slot, *by, obs),
            Step::ForgeBuilder { slot, builder, factor_ppm } => {
                if self.acts.is_empty() {
                    return;
                }
                let i = *slot % self.acts.len();
                if self.acts[i].kind != Kind::Order || self.acts[i].swap.is_some() || self.act_state(&self.acts[i]) != St::Pending {
                    return;
                }
                let owner = self.user(*builder);
                let o = self.w.process(ex::prepare_user_ix(&self.d, &owner));
                if !o.ok {
                    return;
                }
                let factor = *factor_ppm as u128 * (USD / 1_000_000);
                self.acts[i].builder = Some((*builder, factor));
                obs.probe("c32_builder_what_if_attached");
                obs.event(|| format!("builder what-if on order #{i}: user {builder} factor {factor}"));
            }
            Step::SettleBuilderFee { slot, twice } => {
                if self.acts.is_empty() {
                    return;
                }
                let i = *slot % self.acts.len();
                let Some((b, _)) = self.acts[i].builder else { return };
                let key = self.acts[i].key;
                let owner = self.user(b);
                for round in 0..(1 + *twice as usize) {
                    let Some((ixs, claim_vault)) = crate::c32::settle_ix(&self.w, &self.d, &key, &owner) else { return };
                    let Some(recorded) = crate::c32::recorded_fee(&self.w, &key) else { return };
                    let o: gmsol_store::states::Order = match read_pod(&self.w, &key) { Some(o) => o, None => return };
                    let Some(token) = o.tokens().final_output_token().token() else { return };
                    let escrow = ata(&key, &token);
                    let esc0 = token_balance(&self.w, &escrow);
                    let cv0 = token_balance(&self.w, &claim_vault);
                    let out = self.w.process_tx(&ixs, &TxOpts::default());
                    obs.outcome("anyone", "settle_builder_fee", &out.class());
                    if round == 1 {
                        obs.fault("duplicate_settlement");
                    }
                    if out.ok {
                        let esc1 = token_balance(&self.w, &escrow);
                        let cv1 = token_balance(&self.w, &claim_vault);
                        let moved = cv1 - cv0;
                        let rec_after = crate::c32::recorded_fee(&self.w, &key).unwrap_or(u64::MAX);
                        obs.require(moved <= recorded && moved <= esc0 && esc0 - esc1 == moved, "C32", "settlement_overpaid", || format!("round={round}"), || format!("settlement moved {moved}; recorded {recorded}, escrow held {esc0}"));
                        obs.require(moved == recorded.min(esc0), "C32", "settlement_amount", || format!("round={round}"), || format!("settlement moved {moved}, expected min(recorded {recorded}, escrow {esc0})"));
                        obs.require(rec_after == 0, "C32", "record_not_zeroed", || format!("round={round}"), || format!("recorded builder fee after settlement = {rec_after}"));
                        if round == 1 || recorded == 0 {
                            obs.require(moved == 0, "C32", "repeated_settlement_paid", || "repeat".into(), || format!("a repeated settlement moved {moved}"));
                            obs.probe("c32_repeated_settlement_noop");
                        }
                        if recorded > 0 {
                            obs.probe("c32_fee_settled");
                        }
                    }
                    self.after_tx(&out, obs);
                }
            }
            Step::Liquidate { pos } => {
                if self.positions.is_empty() {
                    return;
                }
                let pk = if *pos == usize::MAX { *self.positions.last().unwrap() } else { self.positions[*pos % self.positions.len()] };
                let Some(p) = read_pod::<Position>(&self.w, &pk) else { return };
                let size_before = p.state.size_in_usd;
                let nonce = self.next_nonce();
                let Some((ixs, _order)) = ex::position_cut_tx(&self.w, &self.d, &pk, nonce, None, 5000, 0) else { return };
                let pre = self.w.clone();
                let mi_liq = self.d.markets.iter().position(|m| m.market_token == p.market_token);
                let liq_pre = mi_liq.and_then(|mi| crate::c40::accepted_prices(&pre, &self.d, mi).and_then(|pr| crate::c40::sdk_liquidatable(&pre, &self.d, mi, &pk, &pr, true)));
                let out = self.w.process_tx(&ixs, &TxOpts::default());
                obs.outcome("order_keeper", "liquidate", &out.class());
                if out.ok {
                    obs.probe("liquidation_succeeded");
                    if let Some(l) = liq_pre {
                        obs.require(l, "C09", "healthy_position_liquidated", || "ref=sdk_position_model".into(), || format!("liquidation of position {pk} succeeded although check_liquidatable(for_liquidation=true) on the pre-state says it is healthy"));
                    }
                    let after: Option<Position> = read_pod(&self.w, &pk);
                    let size_after = after.map(|p| p.state.size_in_usd).unwrap_or(0);
                    obs.require(size_before > 0 && size_after == 0, "C09", "liquidation_not_full_close", || "partial".into(), || format!("liquidation succeeded: size {size_before} -> {size_after}"));
                    let keeper = self.d.keeper;
                    let stranger = self.stranger;
                    self.twin(&pre, &ixs, &keeper, "liquidate", "no_role", &stranger, obs);
                }
                self.after_tx(&out, obs);
            }
            Step::ClaimFees { market, long_side } => {
                let mk = self.d.markets[*market % self.d.markets.len()].clone();
                let t = if *long_side { mk.long } else { mk.short };
                let mint = self.d.tokens[t].mint;
                let receiver = self.d.admin;
                let target = ata(&receiver, &mint);
                let ixs = vec![
                    ex::create_ata_ix(&receiver, &receiver, &mint),
                    store_ix(
                        gmsol_store::accounts::ClaimFeesFromMarket { authority: receiver, store: self.d.store, market: mk.market, token_mint: mint, vault: vault_of(&self.d.store, &mint), target, token_program: spl_token::ID, event_authority: self.d.event_authority, program: gmsol_store::ID },
                        gmsol_store::instruction::ClaimFeesFromMarket {},
                    ),
                ];
                let pre = self.w.clone();
                let before = token_balance(&self.w, &target);
                let out = self.w.process_tx(&ixs, &TxOpts::default());
                obs.outcome("fee_receiver", "claim_fees_from_market", &out.class());
                if out.ok {
                    if token_balance(&self.w, &target) > before {
                        obs.probe("fees_claimed_nonzero");
                    }
                    let stranger = self.stranger;
                    self.twin(&pre, &ixs, &receiver, "claim_fees_from_market", "not_the_receiver", &stranger, obs);
                }
                self.after_tx(&out, obs);
            }
            Step::TransferIn { market, long_side, amount } => {
                let mk = self.d.markets[*market % self.d.markets.len()].clone();
                let t = if *long_side { mk.long } else { mk.short };
                let mint = self.d.tokens[t].mint;
                let ix = store_ix(
                    gmsol_store::accounts::MarketTransferIn { authority: self.d.keeper, store: self.d.store, from_authority: self.stranger, market: mk.market, from: ata(&self.stranger, &mint), vault: vault_of(&self.d.store, &mint), token_program: spl_token::ID, event_authority: self.d.event_authority, program: gmsol_store::ID },
                    gmsol_store::instruction::MarketTransferIn { amount: *amount },
                );
                let pre = self.w.clone();
                let out = self.w.process(ix.clone());
                obs.outcome("market_keeper", "market_transfer_in", &out.class());
                if out.ok {
                    obs.probe("keeper_transfer_in");
                    let keeper = self.d.keeper;
                    let other = self.user(0);
                    self.twin(&pre, &[ix], &keeper, "market_transfer_in", "no_role", &other, obs);
                }
                self.after_tx(&out, obs);
            }
            Step::UpdateAdl { market, is_long } => {
                let mk = self.d.markets[*market % self.d.markets.len()].clone();
                let ix = ex::update_adl_state_ix(&self.d, &mk, *is_long);
                let pre = self.w.clone();
                let out = self.w.process(ix.clone());
                obs.outcome("order_keeper", "update_adl_state", &out.class());
                if out.ok {
                    let keeper = self.d.keeper;
                    let stranger = self.stranger;
                    self.twin(&pre, &[ix], &keeper, "update_adl_state", "no_role", &stranger, obs);
                    if read_pod::<Market>(&self.w, &mk.market).map(|m| m.is_adl_enabled(*is_long)).unwrap_or(false) {
                        obs.probe("adl_enabled");
                    }
                }
                self.after_tx(&out, obs);
            }
            Step::Adl { pos, size_usd } => {
                if self.positions.is_empty() {
                    return;
                }
                let pk = if *pos == usize::MAX { *self.positions.last().unwrap() } else { self.positions[*pos % self.positions.len()] };
                let Some(p) = read_pod::<Position>(&self.w, &pk) else { return };
                if p.state.size_in_usd == 0 {
                    return;
                }
                let Some(mi) = self.d.markets.iter().position(|m| m.market_token == p.market_token) else { return };
                let is_long = p.try_is_long().unwrap_or(true);
                let nonce = self.next_nonce();
                let Some((ixs, _order)) = ex::position_cut_tx(&self.w, &self.d, &pk, nonce, Some(*size_usd as u128 * USD), 5000, 0) else { return };
                let pre = self.w.clone();
                let prices = crate::c40::accepted_prices(&pre, &self.d, mi);
                let before = prices.as_ref().and_then(|pr| crate::c40::sdk_pnl_factor(&pre, &self.d, mi, pr, is_long, true));
                let out = self.w.process_tx(&ixs, &TxOpts::default());
                obs.outcome("order_keeper", "auto_deleverage", &out.class());
                obs.event(|| format!("auto_deleverage {pk} size={size_usd} -> {} (pnl factor before: {before:?})", out.class()));
                if out.ok {
                    obs.probe("adl_succeeded");
                    let after = prices.as_ref().and_then(|pr| crate::c40::sdk_pnl_factor(&self.w, &self.d, mi, pr, is_long, false));
                    if let (Some((fb, max, min)), Some((fa, _, _))) = (before, after) {
                        obs.require(fb > 0 && fb as u128 > max, "C09", "adl_without_excess", || "ref=sdk_market_model".into(), || format!("auto-deleverage succeeded with pnl factor {fb} <= limit {max}"));
                        obs.require(fa < fb, "C09", "adl_did_not_lower_factor", || "ref=sdk_market_model".into(), || format!("auto-deleverage: pnl factor {fb} -> {fa}"));
                        obs.require(fa >= min as i128, "C09", "adl_below_minimum", || "ref=sdk_market_model".into(), || format!("auto-deleverage: pnl factor after {fa} < configured minimum {min}"));
                    }
                    let keeper = self.d.keeper;
                    let stranger = self.stranger;
                    self.twin(&pre, &ixs, &keeper, "auto_deleverage", "no_role", &stranger, obs);
                }
                self.after_tx(&out, obs);
            }
            Step::UpdateFees { market } => {
                let mk = self.d.markets[*market % self.d.markets.len()].clone();
                let ix = ex::update_fees_state_ix(&self.d, &mk);
                let pre = self.w.clone();
                let out = self.w.process(ix.clone());
                obs.outcome("order_keeper", "update_fees_state", &out.class());
                if out.ok && self.sdk_diff {
                    let mi = *market % self.d.markets.len();
                    if let Some(prices) = crate::c40::accepted_prices(&pre, &self.d, mi) {
                        if let Some((_, n)) = crate::c40::replay_fees_update(&pre, &self.w, &self.d, mi, &prices, obs) {
                            obs.probe_n("c40_fields_compared", n);
                    obs.probe_n("tv_disagreements_checked", n);
                            obs.probe("c40_replayed:update_fees_state");
                            obs.probe("tv_programs");
                        }
                    }
                }
                if out.ok {
                    let keeper = self.d.keeper;
                    let stranger = self.stranger;
                    self.twin(&pre, &[ix], &keeper, "update_fees_state", "no_role", &stranger, obs);
                }
                self.after_tx(&out, obs);
            }
            Step::Dust { token, to, slot, amount } => {
                let t = *token % self.d.tokens.len();
                if self.d.tokens[t].synthetic {
                    return;
                }
                let mint = self.d.tokens[t].mint;
                let target = if *to == 0 || self.acts.is_empty() {
                    vault_of(&self.d.store, &mint)
                } else {
                    let a = &self.acts[*slot % self.acts.len()];
                    match a.escrows.iter().find(|e| e.0 == mint) {
                        Some(e) => e.1,
                        None => return,
                    }
                };
                if self.w.get(&target).is_none() {
                    return;
                }
                let ix = spl_token::instruction::transfer(&spl_token::ID, &ata(&self.stranger, &mint), &target, &self.stranger, &[], *amount).unwrap();
                let out = self.w.process(ix);
                obs.outcome("stranger", "dust_transfer", &out.class());
                if out.ok {
                    obs.fault("dust_transfer");
                    self.dusted = true;
                }
                self.after_tx(&out, obs);
            }
        }
    }

    /// Model of a valid swap path: every hop converts the current token through a market that has it on
    /// one side (no-op hops through single-token markets and duplicate markets are invalid); the path
    /// ends in `tout`.
    fn path_valid(&self, path: &[usize], tin: usize, tout: usize) -> bool {
        let mut cur = tin;
        let mut seen = vec![];
        for m in path {
            if seen.contains(m) {
                return false;
            }
            seen.push(*m);
            let mk = &self.d.markets[*m];
            if mk.long == mk.short {
                return false;
            }
            if cur == mk.long {
                cur = mk.short;
            } else if cur == mk.short {
                cur = mk.long;
            } else {
                return false;
            }
        }
        cur == tout
    }

    fn check_swap_path_creation(&mut self, path: &[usize], tin: usize, tout: usize, out: &TxOutcome, obs: &mut Obs) {
        let valid = self.path_valid(path, tin, tout);
        if !valid {
            obs.probe("invalid_swap_path_submitted");
        }
        obs.require(valid || !out.ok, "C44", "invalid_path_accepted_at_creation", || format!("kind=swap_order,len={}", path.len()), || format!("swap order with invalid path {path:?} ({tin} -> {tout}) was accepted at creation"));
    }

    fn check_deposit_paths(&mut self, a: &DepositArgs, out: &TxOutcome, obs: &mut Obs) {
        let mk = &self.d.markets[a.market];
        let lt = a.initial_long_token.unwrap_or(mk.long);
        let st = a.initial_short_token.unwrap_or(mk.short);
        let mut valid = true;
        if a.long_amount > 0 {
            valid &= self.path_valid(&a.long_path, lt, mk.long) && !a.long_path.contains(&a.market);
        }
        if a.short_amount > 0 {
            valid &= self.path_valid(&a.short_path, st, mk.short) && !a.short_path.contains(&a.market);
        }
        if !valid {
            obs.probe("invalid_deposit_path_submitted");
        }
        // a path through the deposit's own market is not covered by the statement: only alarm on the core rules
        let core_valid = (a.long_amount == 0 || self.path_valid(&a.long_path, lt, mk.long)) && (a.short_amount == 0 || self.path_valid(&a.short_path, st, mk.short));
        obs.require(core_valid || !out.ok, "C44", "invalid_path_accepted_at_creation", || "kind=deposit".to_string(), || format!("deposit with invalid paths long={:?} short={:?} accepted", a.long_path, a.short_path));
    }

    fn execute(&mut self, slot: usize, throw: bool, dup: bool, obs: &mut Obs) {
        if self.acts.is_empty() {
            return;
        }
        let i = slot % self.acts.len();
        let (kind, key) = (self.acts[i].kind, self.acts[i].key);
        let prev = self.act_state(&self.acts[i]);
        let ixs: Option<Vec<Instruction>> = match kind {
            Kind::Deposit => ex::execute_deposit_ix(&self.w, &self.d, &key, throw, 5000).map(|x| vec![x]),
            Kind::Withdrawal => ex::execute_withdrawal_ix(&self.w, &self.d, &key, throw, 5000).map(|x| vec![x]),
            Kind::Shift => ex::execute_shift_ix(&self.w, &self.d, &key, throw, 5000).map(|x| vec![x]),
            Kind::Order => ex::execute_order_tx(&self.w, &self.d, &key, throw, 5000, 0),
        };
        let Some(ixs) = ixs else {
            obs.outcome("order_keeper", "execute_missing_action", "skipped");
            return;
        };
        let pre = self.w.clone();
        let snap = self.markets_snapshot();
        let esc_before = self.escrow_balances(&self.acts[i]);
        let rec_before: Vec<(u64, u64)> = (0..self.d.markets.len()).map(|m| self.recorded(m)).collect();
        let out = self.w.process_tx(&ixs, &TxOpts::default());
        obs.outcome("order_keeper", &format!("execute_{kind:?}"), &out.class());
        obs.event(|| format!("execute {kind:?} #{i} throw={throw} dup={dup} prev={prev:?} -> {}", out.class()));
        // C23: a non-pending action can never be executed (exactly once)
        if prev != St::Pending {
            obs.require(!out.ok, "C23", "executed_twice", || format!("kind={kind:?},state={prev:?}"), || format!("execute of a {prev:?} {kind:?} succeeded"));
            if !out.ok {
                obs.probe("second_execute_rejected");
            }
        }
        if out.ok {
            let now = self.act_state(&self.acts[i]);
            match now {
                St::Completed => {
                    self.acts[i].executed_once = true;
                    if self.sdk_diff {
                        if let Some((mi, a, b)) = self.acts[i].plain {
                            if let Some(prices) = crate::c40::accepted_prices(&pre, &self.d, mi) {
                                match kind {
                                    Kind::Deposit => {
                                        let n = crate::c40::replay_deposit(&pre, &self.w, &self.d, mi, &prices, a, b, obs);
                                        obs.probe_n("c40_fields_compared", n);
                    obs.probe_n("tv_disagreements_checked", n);
                                        obs.probe("c40_replayed:deposit");
                                        obs.probe("tv_programs");
                                    }
                                    Kind::Withdrawal => {
                                        let mk = self.d.markets[mi].clone();
                                        let esc_after = self.escrow_balances(&self.acts[i]);
                                        let delta = |mint: &Pubkey| -> u64 {
                                            let b0 = esc_before.iter().find(|e| e.0 == *mint).map(|e| e.1).unwrap_or(0);
                                            let b1 = esc_after.iter().find(|e| e.0 == *mint).map(|e| e.1).unwrap_or(0);
                                            b1.saturating_sub(b0)
                                        };
                                        let gl = delta(&self.d.tokens[mk.long].mint);
                                        let gs = if mk.long == mk.short { 0 } else { delta(&self.d.tokens[mk.short].mint) };
                                        let n = crate::c40::replay_withdrawal(&pre, &self.w, &self.d, mi, &prices, a, gl, gs, obs);
                                        obs.probe_n("c40_fields_compared", n);
                    obs.probe_n("tv_disagreements_checked", n);
                                        obs.probe("c40_replayed:withdrawal");
                                        obs.probe("tv_programs");
                                    }
                                    _ => {}
                                }
                            }
                        }
                    }
                    if let Some((path, tin, tout)) = self.acts[i].swap.clone() {
                        self.check_swap_execution(i, &path, tin, tout, &out, &rec_before, &esc_before, obs);
                    }
                    if self.acts[i].builder.is_some() {
                        self.check_builder_fee(i, &pre, &out, &rec_before, &esc_before, obs);
                    }
                    if let (Some(pos), Some((_, _, mi, _))) = (self.acts[i].position, self.acts[i].order_info) {
                        let open = read_pod::<Position>(&self.w, &pos).map(|p| p.state.size_in_usd > 0).unwrap_or(false);
                        if open {
                            if let Some(prices) = crate::c40::accepted_prices(&pre, &self.d, mi) {
                                // "liquidatable" = a liquidation at these prices would succeed (liquidation thresholds)
                                if let Some(reason) = crate::c40::sdk_liquidatable_reason(&self.w, &self.d, mi, &pos, &prices, true) {
                                    let op = if self.acts[i].order_kind.map(ex::is_increase).unwrap_or(false) { "increase" } else { "decrease" };
                                    let r = reason.clone().unwrap_or_default();
                                    obs.require(reason.is_none(), "C09", "position_left_liquidatable", || format!("op={op},reason={r}"), || format!("order #{i} ({op}) executed and left position {pos} liquidatable at the execution prices ({r})"));
                                    obs.probe("c09_health_checked_after_trade");
                                }
                            }
                        }
                    }
                }
                St::Cancelled => {
                    obs.probe("soft_failed_execution");
                    obs.fault("soft_failure");
                    // C23: a failed execution returns the escrow and touches no market
                    let snap2 = self.markets_snapshot();
                    obs.require(snap == snap2, "C23", "failed_execution_touched_market", || format!("kind={kind:?}"), || format!("soft-failed {kind:?} changed a market state"));
                    let esc_after = self.escrow_balances(&self.acts[i]);
                    obs.require(esc_after == esc_before, "C23", "failed_execution_lost_escrow", || format!("kind={kind:?}"), || format!("soft-failed {kind:?}: escrow {esc_before:?} -> {esc_after:?}"));
                    self.check_c21_fork(&pre, obs);
                }
                St::Pending => {
                    // limit orders whose trigger is not met stay pending only by failing; a successful
                    // execute must reach a terminal state
                    obs.require(false, "C23", "execute_left_pending", || format!("kind={kind:?}"), || format!("successful execute left the {kind:?} pending"));
                }
                St::Closed => {}
            }
            let keeper = self.d.keeper;
            let stranger = self.stranger;
            self.twin(&pre, &ixs, &keeper, &format!("execute_{kind:?}"), "no_role", &stranger, obs);
        }
        self.after_tx(&out, obs);
    }

    /// C21 (chain part): world A (with the failed attempt) and world B (without it) must evolve
    /// identically under the same next successful operation.
    fn check_c21_fork(&mut self, pre: &World, obs: &mut Obs) {
        // next operation: a fee-state update of every market at the same clock
        let mut a = self.w.clone();
        let mut b = pre.clone();
        for mk in self.d.markets.clone().iter() {
            let ix = ex::update_fees_state_ix(&self.d, mk);
            let oa = a.process(ix.clone());
            let ob = b.process(ix);
            if oa.ok != ob.ok {
                obs.require(false, "C21", "abandoned_op_changed_outcome", || "op=update_fees_state".into(), || format!("after a soft-failed execution update_fees_state gives {} but {} without it", oa.class(), ob.class()));
                return;
            }
            let fa = read_pod::<Market>(&a, &mk.market).map(|m| market_fingerprint(&m));
            let fb = read_pod::<Market>(&b, &mk.market).map(|m| market_fingerprint(&m));
            obs.require(fa == fb, "C21", "abandoned_op_leaked", || "op=update_fees_state".into(), || "market state after the next operation differs between the world with the soft-failed execution and the world without it".to_string());
        }
    }

    /// C44: the executed hops are exactly the declared markets in order; amounts chain; recorded balances
    /// move by exactly the hop amounts.
    #[allow(clippy::too_many_arguments)]
    fn check_swap_execution(&mut self, i: usize, path: &[usize], tin: usize, tout: usize, out: &TxOutcome, rec_before: &[(u64, u64)], esc_before: &[(Pubkey, u64)], obs: &mut Obs) {
        let mut hops: Vec<gmsol_store::events::SwapExecuted> = vec![];
        for ev in out.cpi_events(&gmsol_store::ID) {
            if ev.len() >= 8 && ev[..8] == *gmsol_store::events::SwapExecuted::DISCRIMINATOR {
                if let Ok(e) = gmsol_store::events::SwapExecuted::try_from_slice(&ev[8..]) {
                    hops.push(e);
                }
            }
        }
        let declared: Vec<Pubkey> = path.iter().map(|m| self.d.markets[*m].market_token).collect();
        let seen: Vec<Pubkey> = hops.iter().map(|h| h.market_token).collect();
        obs.require(seen == declared, "C44", "executed_path_differs", || format!("declared={},seen={}", declared.len(), seen.len()), || format!("swap order #{i}: declared path {path:?} but executed hops through market tokens {seen:?}"));
        if seen != declared {
            return;
        }
        obs.probe(&format!("swap_path_len_{}", path.len().min(4)));
        let amount_in = esc_before.iter().find(|e| e.0 == self.d.tokens[tin].mint).map(|e| e.1).unwrap_or(0) as u128;
        let mut cur_token = tin;
        let mut cur_amount = amount_in;
        let mut expect: BTreeMap<(usize, bool), i128> = BTreeMap::new();
        for (h, m) in hops.iter().zip(path.iter()) {
            let mk = &self.d.markets[*m];
            let is_in_long = h.report.params().is_token_in_long();
            let want_long = cur_token == mk.long;
            obs.require(is_in_long == want_long, "C44", "hop_wrong_side", || "side".into(), || format!("hop through market {m}: token in is_long={is_in_long}, expected {want_long}"));
            let a_in = *h.report.params().token_in_amount();
            obs.require(a_in == cur_amount, "C44", "hop_amount_not_chained", || "chain".into(), || format!("hop through market {m}: input {a_in} but previous output / escrow was {cur_amount}"));
            let a_out = *h.report.token_out_amount();
            *expect.entry((*m, want_long)).or_insert(0) += a_in as i128;
            *expect.entry((*m, !want_long)).or_insert(0) -= a_out as i128;
            cur_token = if want_long { mk.short } else { mk.long };
            cur_amount = a_out;
        }
        obs.require(cur_token == tout, "C44", "final_token_differs", || "final".into(), || format!("swap ended in token {cur_token}, declared {tout}"));
        // recorded balances
        for m in 0..self.d.markets.len() {
            let (l0, s0) = rec_before[m];
            let (l1, s1) = self.recorded(m);
            let pure = self.d.markets[m].long == self.d.markets[m].short;
            if pure {
                continue;
            }
            let dl = l1 as i128 - l0 as i128;
            let ds = s1 as i128 - s0 as i128;
            let el = expect.get(&(m, true)).copied().unwrap_or(0);
            let es = expect.get(&(m, false)).copied().unwrap_or(0);
            obs.require(dl == el && ds == es, "C44", "recorded_balance_not_moved_by_hop", || format!("in_path={}", path.contains(&m)), || format!("market {m}: recorded balances moved by ({dl},{ds}), hops imply ({el},{es})"));
        }
        // the output sits in the order's escrow of the declared output token
        let out_mint = self.d.tokens[tout].mint;
        let got = self.acts[i].escrows.iter().find(|e| e.0 == out_mint).map(|e| token_balance(&self.w, &e.1)).unwrap_or(0) as u128;
        let had = esc_before.iter().find(|e| e.0 == out_mint).map(|e| e.1).unwrap_or(0) as u128;
        let in_mint = self.d.tokens[tin].mint;
        let delta = if in_mint == out_mint { got + amount_in - had } else { got - had.min(got) };
        obs.require(delta == cur_amount || path.is_empty(), "C44", "output_not_in_escrow", || "escrow".into(), || format!("swap output {cur_amount} but escrow of the output token changed by {delta}"));
    }

    /// C32: the builder-fee arithmetic evaluated (through the cfg-guarded hook) on the executed size,
    /// prices, collateral increment and output of a position order that just executed, for the what-if
    /// factor attached by the plan; afterwards the charge is recorded on the order account (stub of the
    /// unreachable charging path) so that the real settlement instruction can be exercised.
    fn check_builder_fee(&mut self, i: usize, pre: &World, out: &TxOutcome, _rec_before: &[(u64, u64)], esc_before: &[(Pubkey, u64)], obs: &mut Obs) {
        use gmsol_store::ops::order::verif as bf;
        let Some((builder_idx, factor)) = self.acts[i].builder else { return };
        let Some((_req_size, collateral, mi, collat_long)) = self.acts[i].order_info else { return };
        let Some(kind) = self.acts[i].order_kind else { return };
        let key = self.acts[i].key;
        let mut size_delta: Option<u128> = None;
        for ev in out.cpi_events(&gmsol_store::ID) {
            if ev.len() >= 8 && ev[..8] == *gmsol_store::events::TradeEvent::DISCRIMINATOR {
                if let Ok(e) = gmsol_store::events::TradeEvent::try_from_slice(&ev[8..]) {
                    size_delta = Some(e.after.size_in_usd.abs_diff(e.before.size_in_usd));
                }
            }
        }
        let Some(size_delta) = size_delta else {
            obs.probe("c32_no_trade_event");
            return;
        };
        let mk = self.d.markets[mi].clone();
        let ctoken = if collat_long { mk.long } else { mk.short };
        let Some(prices) = crate::c40::accepted_prices(pre, &self.d, mi) else { return };
        let increase = ex::is_increase(kind);
        let out_mint = if increase {
            self.d.tokens[ctoken].mint
        } else {
            match read_pod::<gmsol_store::states::Order>(&self.w, &key).and_then(|o| o.tokens().final_output_token().token()) {
                Some(t) => t,
                None => return,
            }
        };
        let fee_price = if out_mint == self.d.tokens[mk.long].mint {
            prices.long_token_price
        } else if out_mint == self.d.tokens[mk.short].mint {
            prices.short_token_price
        } else {
            obs.probe("c32_fee_token_outside_market");
            return;
        };
        let Some((ra, rb)) = crate::c32::reference_fee(size_delta, factor, fee_price.min) else { return };
        // 1. fee = executed size x factor, converted at the minimum price, rounded up
        let fee = match bf::compute_builder_fee_amount(size_delta, factor, &fee_price) {
            Ok(f) => f,
            Err(_) => {
                obs.probe("c32_fee_overflow_reported");
                return;
            }
        };
        obs.require(fee == ra || fee == rb, "C32", "fee_amount", || format!("zero_factor={}", factor == 0), || format!("builder fee {fee} for size {size_delta}, factor {factor}, min price {}; reference {ra} (or {rb})", fee_price.min));
        let esc_out_before = esc_before.iter().find(|e| e.0 == out_mint).map(|e| e.1).unwrap_or(0);
        let esc_out_after = self.acts[i].escrows.iter().find(|e| e.0 == out_mint).map(|e| token_balance(&self.w, &e.1)).unwrap_or(0);
        let mut recorded: u64 = 0;
        if increase {
            // 2. fee + remaining increment == original increment, or the order fails
            match bf::charge_builder_fee_on_collateral_increment(collateral, size_delta, factor, &fee_price) {
                Ok((after, charged)) => {
                    obs.require(after as u128 + charged as u128 == collateral as u128 && charged as u128 == fee, "C32", "increment_split", || "ok".into(), || format!("increment {collateral}: after {after} + fee {charged} (computed fee {fee})"));
                    obs.probe("c32_fee_on_increase");
                    // The stub keeps nothing back in the order's escrow (the whole increment went to the
                    // market), so recording the charge leaves the escrow short of the recorded fee: the
                    // state in which settlement must pay only what the escrow holds and still zero the record.
                    if charged > 0 {
                        let tok = read_pod::<gmsol_store::states::Order>(&self.w, &key).and_then(|o| o.tokens().final_output_token().token());
                        if tok == Some(out_mint) && self.w.get(&ata(&key, &out_mint)).is_some() {
                            recorded = charged;
                            obs.fault("escrow_short_of_recorded_fee");
                        }
                    }
                }
                Err(_) => {
                    obs.require(fee > collateral as u128, "C32", "increment_split", || "err".into(), || format!("charging fee {fee} on increment {collateral} failed although the increment covers it"));
                    obs.probe("c32_fee_exceeds_increment_rejected");
                }
            }
        } else {
            // 3. on a decrease the recorded fee never exceeds the final output
            let output = (esc_out_after as u128).saturating_sub(esc_out_before as u128);
            let paid = bf::clamp_builder_fee_amount(fee, output);
            obs.require(paid <= output && paid <= fee && (paid == fee || paid == output), "C32", "fee_exceeds_output", || "kind=decrease".into(), || format!("decrease: fee {fee}, output {output}, clamped {paid}"));
            recorded = paid.min(u64::MAX as u128) as u64;
            obs.probe("c32_fee_on_decrease");
            // withdrawal estimate: tops the requested withdrawal up by the fee, rejects collateral->pnl swaps
            use gmsol_model::action::decrease_position::DecreasePositionSwapType as Ty;
            for ty in [Ty::NoSwap, Ty::PnlTokenToCollateralToken, Ty::CollateralToPnlToken] {
                let r = bf::estimate_builder_fee_for_collateral_withdrawal(collateral as u128, size_delta, factor, &fee_price, ty);
                match r {
                    Ok(v) => {
                        let want = if factor == 0 { collateral as u128 } else { collateral as u128 + fee };
                        obs.require(v == want && (factor == 0 || ty != Ty::CollateralToPnlToken), "C32", "withdrawal_estimate", || format!("ty={ty:?}"), || format!("withdrawal estimate {v}, expected {want} (fee {fee}, swap type {ty:?})"));
                    }
                    Err(_) => {
                        obs.require(factor != 0 && (ty == Ty::CollateralToPnlToken || (collateral as u128).checked_add(fee).is_none()), "C32", "withdrawal_estimate", || format!("ty={ty:?},err=true"), || format!("withdrawal estimate failed for swap type {ty:?}, factor {factor}"));
                    }
                }
            }
        }
        // stub: record the charge so that settlement can run (only what the escrow can cover is meaningful)
        if recorded > 0 && self.w.get(&key).is_some() {
            let owner = self.user(builder_idx);
            if crate::c32::forge_builder(&mut self.w, &key, &ex::user_pda(&self.d, &owner), factor, recorded) {
                obs.probe("c32_charge_recorded_by_stub");
            }
        }
    }

    fn close(&mut self, slot: usize, by: By, obs: &mut Obs) {
        if self.acts.is_empty() {
            return;
        }
        let i = slot % self.acts.len();
        let (kind, key, owner_idx) = (self.acts[i].kind, self.acts[i].key, self.acts[i].owner);
        let owner = self.user(owner_idx);
        let executor = match by {
            By::Owner => owner,
            By::Keeper => self.d.keeper,
            By::Stranger => self.stranger,
        };
        let prev = self.act_state(&self.acts[i]);
        let ix = match kind {
            Kind::Deposit => ex::close_deposit_ix(&self.w, &self.d, &key, &executor),
            Kind::Withdrawal => ex::close_withdrawal_ix(&self.w, &self.d, &key, &executor),
            Kind::Shift => ex::close_shift_ix(&self.w, &self.d, &key, &executor),
            Kind::Order => ex::close_order_ix(&self.w, &self.d, &key, &executor),
        };
        let Some(ix) = ix else { return };
        // receiver ATAs must exist for the transfer home (created by the executor as clients do)
        let mut ixs = vec![];
        for (mint, _) in self.acts[i].escrows.iter() {
            ixs.push(ex::create_ata_ix(&executor, &owner, mint));
        }
        ixs.push(ix);
        let esc_before = self.escrow_balances(&self.acts[i]);
        let owner_before: Vec<u64> = self.acts[i].escrows.iter().map(|(m, _)| token_balance(&self.w, &ata(&owner, m))).collect();
        let lam_before = self.w.lamports(&owner);
        let act_lamports = self.w.lamports(&key);
        let pre = self.w.clone();
        let out = self.w.process_tx(&ixs, &TxOpts::default());
        obs.outcome(&format!("{by:?}"), &format!("close_{kind:?}"), &out.class());
        obs.event(|| format!("close {kind:?} #{i} by={by:?} state={prev:?} -> {}", out.class()));
        obs.fingerprint(&[4, kind as u64, prev as u64, by as u64, out.ok as u64]);
        if out.ok {
            // C23: who may close what
            let allowed = match by {
                By::Owner => true,
                By::Keeper => matches!(prev, St::Completed | St::Cancelled),
                By::Stranger => false,
            };
            obs.require(allowed, "C23", "close_not_allowed", || format!("by={by:?},state={prev:?},kind={kind:?}"), || format!("{by:?} closed a {prev:?} {kind:?}"));
            if !allowed {
                return;
            }
            // escrow goes home: every token that sat in escrow is now with the owner/receiver
            for (n, (mint, acc)) in self.acts[i].escrows.clone().iter().enumerate() {
                let left = token_balance(&self.w, acc);
                let had = esc_before[n].1;
                let now = token_balance(&self.w, &ata(&owner, mint));
                let gained = now as i128 - owner_before[n] as i128;
                obs.require(left == 0 && gained == had as i128, "C23", "escrow_not_returned", || format!("kind={kind:?},state={prev:?}"), || format!("close {kind:?} ({prev:?}): escrow held {had}, owner gained {gained}, {left} left in escrow"));
            }
            if by == By::Owner {
                let lam_after = self.w.lamports(&owner);
                obs.require(lam_after as i128 - lam_before as i128 >= act_lamports as i128 - 10_000_000, "C23", "execution_fee_not_refunded", || format!("kind={kind:?},state={prev:?}"), || format!("owner lamports {lam_before} -> {lam_after}, action account held {act_lamports}"));
            }
            if prev == St::Pending {
                obs.probe("pending_closed_by_owner");
            }
            // C19 (owner-gated): the same close by another user must fail when the action is pending
            if prev == St::Pending && by == By::Owner {
                let s = self.stranger;
                self.twin(&pre, &ixs, &owner, &format!("close_{kind:?}"), "other_user", &s, obs);
            }
        } else if by == By::Keeper && prev == St::Pending {
            obs.probe("keeper_close_of_pending_rejected");
        } else if by == By::Stranger {
            obs.probe("stranger_close_rejected");
        }
        self.after_tx(&out, obs);
    }

    /// Bounded liveness: once faults stop, every owner closes its actions; all escrows must end empty and
    /// every action account closed within one step per action.
    pub fn drain(&mut self, obs: &mut Obs) {
        obs.set_step(usize::MAX / 2);
        for i in 0..self.acts.len() {
            if self.act_state(&self.acts[i]) == St::Closed {
                continue;
            }
            // A completed order carrying an unsettled builder fee (recorded here by the C32 charging stub)
            // is closable only after the permissionless settlement; a cooperative owner settles first.
            if self.acts[i].builder.is_some() && crate::c32::recorded_fee(&self.w, &self.acts[i].key).unwrap_or(0) > 0 {
                self.step(&Step::SettleBuilderFee { slot: i, twice: false }, obs);
                obs.probe("c23_settled_builder_fee_before_close");
            }
            self.close(i, By::Owner, obs);
            if obs.should_stop() {
                return;
            }
            let st = self.act_state(&self.acts[i]);
            obs.require(st == St::Closed, "C23", "action_not_closable_by_owner", || format!("kind={:?},state={:?}", self.acts[i].kind, st), || format!("action {i} ({:?}) could not be closed by its owner at the end of the run (state {st:?})", self.acts[i].kind));
            for (_, acc) in self.acts[i].escrows.clone().iter() {
                let left = token_balance(&self.w, acc);
                obs.require(left == 0, "C23", "escrow_left_after_close", || format!("kind={:?}", self.acts[i].kind), || format!("action {i}: {left} tokens left in escrow {acc} after close"));
            }
        }
    }
}
