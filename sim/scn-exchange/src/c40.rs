//! C40 — translation validation of the SDK market model against the on-chain program.
//!
//! (A) every market account produced in a run is decoded twice — with the program's own zero-copy `Market`
//!     and with the IDL-generated SDK type wrapped in `MarketModel` — and every pool, parameter, flag and
//!     balance visible through the gmsol-model traits must agree;
//! (B) (borrowing-state updates excepted: the SDK model has no `BorrowingFeeMarketMut`) for executed fee-state updates, deposits and withdrawals the SDK model is built from the *pre-state*
//!     account bytes, its clock is set to the chain time (cfg-guarded hook), the same model operations the
//!     program documents are replayed on it with the prices the program's oracle accepted, and the resulting
//!     pools and minted / paid-out amounts are compared with the program's post-state.

use std::sync::Arc;

use gmsol_model::{
    price::{Price, Prices},
    Balance, BaseMarket, BorrowingFeeMarket, LiquidityMarketMutExt, MarketAction, PerpMarket,
    PerpMarketMutExt, PnlFactorKind, PositionImpactMarket, PositionImpactMarketMutExt, SwapMarket,
};
use gmsol_programs::gmsol_store::accounts::Market as SdkMarket;
use gmsol_programs::model::MarketModel;
use gmsol_store::states::Market;
use simcore::Obs;
use solana_program::pubkey::Pubkey;

use chainsim::deploy::{mint_supply, read_pod, store_ix, Dep};
use chainsim::rt::World;

const UNIT: u128 = 100_000_000_000_000_000_000;

pub fn sdk_model(w: &World, market: &Pubkey, market_token: &Pubkey) -> Option<MarketModel> {
    let d = w.data(market)?;
    let n = std::mem::size_of::<SdkMarket>();
    if d.len() < 8 + n {
        return None;
    }
    let m: SdkMarket = bytemuck::pod_read_unaligned(&d[8..8 + n]);
    Some(MarketModel::from_parts(Arc::new(m), mint_supply(w, market_token)))
}

fn pool2<P: Balance<Num = u128>>(p: gmsol_model::Result<&P>) -> (u128, u128) {
    match p {
        Ok(p) => (p.long_amount().unwrap_or(u128::MAX), p.short_amount().unwrap_or(u128::MAX)),
        Err(_) => (u128::MAX - 1, u128::MAX - 1),
    }
}

/// Everything visible through the model traits, as `(name, value)` pairs.
pub fn view<M>(m: &M) -> Vec<(String, u128)>
where
    M: BaseMarket<20, Num = u128, Signed = i128> + SwapMarket<20> + PositionImpactMarket<20> + BorrowingFeeMarket<20> + PerpMarket<20>,
{
    use gmsol_model::pool::delta::BalanceChange;
    let mut v: Vec<(String, u128)> = vec![];
    let mut pool = |name: &str, p: (u128, u128)| {
        v.push((format!("pool.{name}.long"), p.0));
        v.push((format!("pool.{name}.short"), p.1));
    };
    pool("liquidity", pool2(m.liquidity_pool()));
    pool("claimable_fee", pool2(m.claimable_fee_pool()));
    pool("swap_impact", pool2(m.swap_impact_pool()));
    pool("open_interest_long", pool2(m.open_interest_pool(true)));
    pool("open_interest_short", pool2(m.open_interest_pool(false)));
    pool("open_interest_in_tokens_long", pool2(m.open_interest_in_tokens_pool(true)));
    pool("open_interest_in_tokens_short", pool2(m.open_interest_in_tokens_pool(false)));
    pool("collateral_sum_long", pool2(m.collateral_sum_pool(true)));
    pool("collateral_sum_short", pool2(m.collateral_sum_pool(false)));
    pool("position_impact", pool2(m.position_impact_pool()));
    pool("borrowing_factor", pool2(m.borrowing_factor_pool()));
    pool("total_borrowing", pool2(m.total_borrowing_pool()));
    pool("funding_amount_per_size_long", pool2(m.funding_amount_per_size_pool(true)));
    pool("funding_amount_per_size_short", pool2(m.funding_amount_per_size_pool(false)));
    pool("claimable_funding_amount_per_size_long", pool2(m.claimable_funding_amount_per_size_pool(true)));
    pool("claimable_funding_amount_per_size_short", pool2(m.claimable_funding_amount_per_size_pool(false)));
    let mut put = |name: &str, x: u128| v.push((name.to_string(), x));
    put("funding_factor_per_second", *m.funding_factor_per_second() as u128);
    put("usd_to_amount_divisor", m.usd_to_amount_divisor());
    put("funding_amount_per_size_adjustment", m.funding_amount_per_size_adjustment());
    for (n, l) in [("long", true), ("short", false)] {
        put(&format!("max_pool_amount.{n}"), m.max_pool_amount(l).unwrap_or(u128::MAX));
        put(&format!("max_open_interest.{n}"), m.max_open_interest(l).unwrap_or(u128::MAX));
        put(&format!("min_collateral_factor_for_oi.{n}"), m.min_collateral_factor_for_open_interest_multiplier(l).unwrap_or(u128::MAX));
        for (kn, k) in [("deposit", PnlFactorKind::MaxAfterDeposit), ("withdrawal", PnlFactorKind::MaxAfterWithdrawal), ("trader", PnlFactorKind::MaxForTrader), ("adl", PnlFactorKind::ForAdl), ("min_after_adl", PnlFactorKind::MinAfterAdl)] {
            put(&format!("pnl_factor.{kn}.{n}"), m.pnl_factor_config(k, l).unwrap_or(u128::MAX));
        }
    }
    put("reserve_factor", m.reserve_factor().unwrap_or(u128::MAX));
    put("open_interest_reserve_factor", m.open_interest_reserve_factor().unwrap_or(u128::MAX));
    put("ignore_oi_for_usage", m.ignore_open_interest_for_usage_factor().unwrap_or(false) as u128);
    if let Ok(p) = m.swap_impact_params() {
        put("swap_impact.exponent", *p.exponent());
        put("swap_impact.positive", *p.positive_factor());
        put("swap_impact.negative", *p.negative_factor());
    }
    if let Ok(p) = m.position_impact_params() {
        put("position_impact.exponent", *p.exponent());
        put("position_impact.positive", *p.positive_factor());
        put("position_impact.negative", *p.negative_factor());
    }
    for (n, p) in [("swap_fee", m.swap_fee_params()), ("order_fee", m.order_fee_params())] {
        if let Ok(p) = p {
            put(&format!("{n}.receiver"), *p.receiver_factor());
            put(&format!("{n}.positive"), p.fee::<20>(BalanceChange::Improved, &UNIT).unwrap_or(u128::MAX));
            put(&format!("{n}.negative"), p.fee::<20>(BalanceChange::Worsened, &UNIT).unwrap_or(u128::MAX));
        }
    }
    if let Ok(p) = m.position_params() {
        put("position.min_size", *p.min_position_size_usd());
        put("position.min_collateral_value", *p.min_collateral_value());
        put("position.min_collateral_factor", *p.min_collateral_factor());
        put("position.min_collateral_factor_for_liquidation", *p.min_collateral_factor_for_liquidation());
        put("position.max_positive_impact", *p.max_positive_position_impact_factor());
        put("position.max_negative_impact", *p.max_negative_position_impact_factor());
        put("position.max_impact_for_liquidations", *p.max_position_impact_factor_for_liquidations());
    }
    if let Ok(p) = m.position_impact_distribution_params() {
        put("impact_distribution.factor", *p.distribute_factor());
        put("impact_distribution.min_pool", *p.min_position_impact_pool_amount());
    }
    if let Ok(p) = m.borrowing_fee_params() {
        put("borrowing.receiver", *p.receiver_factor());
        put("borrowing.skip_smaller_side", p.skip_borrowing_fee_for_smaller_side() as u128);
        for (n, l) in [("long", true), ("short", false)] {
            put(&format!("borrowing.factor.{n}"), *p.factor(l));
            put(&format!("borrowing.exponent.{n}"), *p.exponent(l));
        }
    }
    if let Ok(p) = m.borrowing_fee_kink_model_params() {
        for (n, l) in [("long", true), ("short", false)] {
            put(&format!("kink.optimal.{n}"), *p.optimal_usage_factor(l));
            put(&format!("kink.base.{n}"), *p.base_borrowing_factor(l));
            put(&format!("kink.above.{n}"), *p.above_optimal_usage_borrowing_factor(l));
        }
    }
    if let Ok(p) = m.funding_fee_params() {
        put("funding.exponent", *p.exponent());
        put("funding.factor", *p.factor());
        put("funding.max", *p.max_factor_per_second());
        put("funding.min", *p.min_factor_per_second());
        put("funding.increase", *p.increase_factor_per_second());
        put("funding.decrease", *p.decrease_factor_per_second());
        put("funding.threshold_stable", *p.threshold_for_stable_funding());
        put("funding.threshold_decrease", *p.threshold_for_decrease_funding());
    }
    v
}

/// Only the pools and the funding factor (the *state* part of the view).
pub fn state_view<M>(m: &M) -> Vec<(String, u128)>
where
    M: BaseMarket<20, Num = u128, Signed = i128> + SwapMarket<20> + PositionImpactMarket<20> + BorrowingFeeMarket<20> + PerpMarket<20>,
{
    view(m).into_iter().filter(|(k, _)| k.starts_with("pool.") || k == "funding_factor_per_second").collect()
}

/// (A) the two decodings of one market account agree. Returns the number of compared fields.
pub fn check_decoding(w: &World, d: &Dep, mi: usize, obs: &mut Obs) -> u64 {
    let mk = &d.markets[mi];
    let Some(prog): Option<Market> = read_pod(w, &mk.market) else { return 0 };
    // layout: the SDK declares the same size
    let sz_prog = std::mem::size_of::<Market>();
    let sz_sdk = std::mem::size_of::<SdkMarket>();
    obs.require(sz_prog == sz_sdk, "C40", "layout_size", || "account=Market".into(), || format!("Market size: program {sz_prog}, SDK {sz_sdk}"));
    let Some(sdk) = sdk_model(w, &mk.market, &mk.market_token) else { return 0 };
    // passed-in-seconds reads the clock: use the chain time on the SDK side
    gmsol_programs::model::verif_set_now(Some(w.clock.unix_timestamp));
    let a = view(&prog);
    let b = view(&sdk);
    let mut n = 0u64;
    for ((ka, va), (kb, vb)) in a.iter().zip(b.iter()) {
        n += 1;
        obs.require(ka == kb && va == vb, "C40", "decoding_differs", || format!("field={ka}"), || format!("market {mi}: {ka} program={va} sdk[{kb}]={vb}"));
        if obs.should_stop() {
            break;
        }
    }
    // flags, meta, balances
    obs.require(prog.is_pure() == sdk.is_pure(), "C40", "decoding_differs", || "field=is_pure".into(), || format!("market {mi}: pure flag program={} sdk={}", prog.is_pure(), sdk.is_pure()));
    let meta_ok = prog.meta().market_token_mint == sdk.meta.market_token_mint && prog.meta().index_token_mint == sdk.meta.index_token_mint && prog.meta().long_token_mint == sdk.meta.long_token_mint && prog.meta().short_token_mint == sdk.meta.short_token_mint;
    obs.require(meta_ok, "C40", "decoding_differs", || "field=meta".into(), || format!("market {mi}: meta differs"));
    obs.require(
        prog.state().long_token_balance_raw() == sdk.state.other.long_token_balance && prog.state().short_token_balance_raw() == sdk.state.other.short_token_balance,
        "C40",
        "decoding_differs",
        || "field=balances".into(),
        || format!("market {mi}: balances program=({},{}) sdk=({},{})", prog.state().long_token_balance_raw(), prog.state().short_token_balance_raw(), sdk.state.other.long_token_balance, sdk.state.other.short_token_balance),
    );
    n += what_if_contents(w, mi, &prog, mint_supply(w, &mk.market_token), obs);
    n + 3
}

/// "Any market account bytes": the same two-decoder comparison on altered copies of the account — the
/// closed flag toggled, config flags redrawn, config values (incl. the closed-market ones) rewritten —
/// produced by the program's own public setters on a copy and handed to the SDK as raw bytes. The
/// alterations are a pure function of the account contents (PRNG keyed by a hash of the bytes).
fn what_if_contents(w: &World, mi: usize, prog: &Market, supply: u64, obs: &mut Obs) -> u64 {
    use gmsol_store::states::market::config::{MarketConfigFlag, MarketConfigKey};
    use gmsol_utils::market::MarketFlag;
    use strum::IntoEnumIterator;
    let _ = w;
    let mut h: u64 = 0xcbf29ce484222325;
    for b in bytemuck::bytes_of(prog) {
        h = (h ^ *b as u64).wrapping_mul(0x100000001b3);
    }
    let mut r = simcore::Rng::derive(h, mi as u64, "c40_what_if");
    let mut n = 0u64;
    for variant in 0..2u32 {
        let mut pc = *prog;
        let closed = if variant == 0 { !prog.is_closed() } else { r.bool() };
        pc.set_flag(MarketFlag::Closed, closed);
        for f in MarketConfigFlag::iter() {
            if variant == 1 && r.chance(1, 2) {
                let _ = pc.set_config_flag(&f.to_string(), r.bool());
            }
        }
        if variant == 1 {
            for key in MarketConfigKey::iter() {
                if r.chance(1, 5) {
                    if let Ok(v) = pc.get_config_mut(&key.to_string()) {
                        *v = *r.pick(&[0u128, 0, 1, UNIT / 1000, UNIT / 100, UNIT / 2, UNIT, 3 * UNIT]) + if r.bool() { r.range(0, 1000) as u128 } else { 0 };
                    }
                }
            }
        }
        let sdk_raw: SdkMarket = bytemuck::pod_read_unaligned(bytemuck::bytes_of(&pc));
        let sdk = MarketModel::from_parts(Arc::new(sdk_raw), supply);
        let a = view(&pc);
        let b = view(&sdk);
        for ((ka, va), (kb, vb)) in a.iter().zip(b.iter()) {
            n += 1;
            obs.require(ka == kb && va == vb, "C40", "decoding_differs", || format!("field={ka},what_if=true,closed={closed}"), || format!("market {mi} (altered copy, closed={closed}, variant {variant}): {ka} program={va} sdk[{kb}]={vb}"));
            if obs.should_stop() {
                return n;
            }
        }
        obs.probe(if closed { "c40_what_if_closed_compared" } else { "c40_what_if_open_compared" });
    }
    n
}

/// The prices the program's oracle accepts for a market right now (obtained by running the real
/// `set_prices_from_price_feed` on a fork and reading the oracle account).
pub fn accepted_prices(w: &World, d: &Dep, mi: usize) -> Option<Prices<u128>> {
    let mk = &d.markets[mi];
    let tokens = chainsim::ex::market_feed_tokens(d, mk);
    let mut ix = store_ix(
        gmsol_store::accounts::SetPricesFromPriceFeed { authority: d.keeper, store: d.store, oracle: d.oracle, token_map: d.token_map, chainlink_program: None },
        gmsol_store::instruction::SetPricesFromPriceFeed { tokens: tokens.clone() },
    );
    ix.accounts.extend(chainsim::ex::feeds_and_markets(d, &tokens, &[], &[]));
    let mut f = w.clone();
    let out = f.process(ix);
    if !out.ok {
        return None;
    }
    let oracle: gmsol_store::states::Oracle = read_pod(&f, &d.oracle)?;
    let market: Market = read_pod(&f, &mk.market)?;
    let meta = market.meta();
    Some(Prices {
        index_token_price: oracle.get_primary_price(&meta.index_token_mint, true).ok()?,
        long_token_price: oracle.get_primary_price(&meta.long_token_mint, false).ok()?,
        short_token_price: oracle.get_primary_price(&meta.short_token_mint, false).ok()?,
    })
}

fn price_eq(a: &Price<u128>, b: &Price<u128>) -> bool {
    a.min == b.min && a.max == b.max
}

/// (B) replay `update_fees_state` (= distribute position impact, update borrowing, update funding) on
/// the SDK model built from the pre-state, and compare with the program's post-state.
pub fn replay_fees_update(pre: &World, post: &World, d: &Dep, mi: usize, prices: &Prices<u128>, obs: &mut Obs) -> Option<(MarketModel, u64)> {
    let mk = &d.markets[mi];
    let mut sdk = sdk_model(pre, &mk.market, &mk.market_token)?;
    gmsol_programs::model::verif_set_now(Some(post.clock.unix_timestamp));
    let r = (|| -> gmsol_model::Result<()> {
        sdk.distribute_position_impact()?.execute()?;
        sdk.update_funding(prices)?.execute()?;
        Ok(())
    })();
    if let Err(e) = r {
        obs.require(false, "C40", "sdk_fees_update_failed", || "op=update_fees_state".into(), || format!("market {mi}: the program updated the fee state but the SDK model fails: {e}"));
        return None;
    }
    let prog: Market = read_pod(post, &mk.market)?;
    let n = compare_state(&prog, &sdk, mi, "update_fees_state", obs);
    Some((sdk, n))
}

pub fn compare_state(prog: &Market, sdk: &MarketModel, mi: usize, op: &str, obs: &mut Obs) -> u64 {
    let a = state_view(prog);
    let b = state_view(sdk);
    let mut n = 0;
    for ((ka, va), (_, vb)) in a.iter().zip(b.iter()) {
        // The SDK model does not implement `BorrowingFeeMarketMut`: it cannot perform the borrowing-state
        // update of the program's pre-execute step, so the cumulative borrowing factor is compared at the
        // decoding level only.
        if ka.starts_with("pool.borrowing_factor") {
            continue;
        }
        n += 1;
        obs.require(va == vb, "C40", "simulation_state_differs", || format!("op={op},field={ka}"), || format!("market {mi} after {op}: {ka} program={va} sdk={vb}"));
        if obs.should_stop() {
            break;
        }
    }
    n
}

/// Deposit without swap paths.
#[allow(clippy::too_many_arguments)]
pub fn replay_deposit(pre: &World, post: &World, d: &Dep, mi: usize, prices: &Prices<u128>, long: u64, short: u64, obs: &mut Obs) -> u64 {
    let mk = &d.markets[mi];
    let Some((mut sdk, mut n)) = replay_fees_update_quiet(pre, post, d, mi, prices) else { return 0 };
    gmsol_programs::model::verif_set_now(Some(post.clock.unix_timestamp));
    let minted_prog = mint_supply(post, &mk.market_token) as u128 - mint_supply(pre, &mk.market_token) as u128;
    match sdk.deposit(long as u128, short as u128, *prices).and_then(|a| a.execute()) {
        Ok(report) => {
            obs.require(*report.minted() == minted_prog, "C40", "simulation_result_differs", || "op=deposit,field=minted".into(), || format!("market {mi} deposit({long},{short}): program minted {minted_prog}, SDK simulation {}", report.minted()));
            n += 1;
            if let Some(prog) = read_pod::<Market>(post, &mk.market) {
                n += compare_state(&prog, &sdk, mi, "deposit", obs);
            }
        }
        Err(e) => {
            obs.require(false, "C40", "sdk_simulation_failed", || "op=deposit".into(), || format!("market {mi}: program executed deposit({long},{short}) but the SDK simulation fails: {e}"));
        }
    }
    n
}

/// Withdrawal without swap paths.
#[allow(clippy::too_many_arguments)]
pub fn replay_withdrawal(pre: &World, post: &World, d: &Dep, mi: usize, prices: &Prices<u128>, amount: u64, got_long: u64, got_short: u64, obs: &mut Obs) -> u64 {
    let mk = &d.markets[mi];
    let Some((mut sdk, mut n)) = replay_fees_update_quiet(pre, post, d, mi, prices) else { return 0 };
    gmsol_programs::model::verif_set_now(Some(post.clock.unix_timestamp));
    match sdk.withdraw(amount as u128, *prices).and_then(|a| a.execute()) {
        Ok(report) => {
            let (l, s) = (*report.long_token_output(), *report.short_token_output());
            let pure = mk.long == mk.short;
            let ok = if pure { l + s == got_long as u128 + got_short as u128 } else { l == got_long as u128 && s == got_short as u128 };
            obs.require(ok, "C40", "simulation_result_differs", || "op=withdrawal,field=outputs".into(), || format!("market {mi} withdraw({amount}): program paid ({got_long},{got_short}), SDK simulation ({l},{s})"));
            n += 2;
            if let Some(prog) = read_pod::<Market>(post, &mk.market) {
                n += compare_state(&prog, &sdk, mi, "withdrawal", obs);
            }
        }
        Err(e) => {
            obs.require(false, "C40", "sdk_simulation_failed", || "op=withdrawal".into(), || format!("market {mi}: program executed withdraw({amount}) but the SDK simulation fails: {e}"));
        }
    }
    n
}

fn replay_fees_update_quiet(pre: &World, post: &World, d: &Dep, mi: usize, prices: &Prices<u128>) -> Option<(MarketModel, u64)> {
    let mk = &d.markets[mi];
    let mut sdk = sdk_model(pre, &mk.market, &mk.market_token)?;
    gmsol_programs::model::verif_set_now(Some(post.clock.unix_timestamp));
    sdk.distribute_position_impact().ok()?.execute().ok()?;
    sdk.update_funding(prices).ok()?.execute().ok()?;
    Some((sdk, 0))
}

pub fn prices_equal(a: &Prices<u128>, b: &Prices<u128>) -> bool {
    price_eq(&a.index_token_price, &b.index_token_price) && price_eq(&a.long_token_price, &b.long_token_price) && price_eq(&a.short_token_price, &b.short_token_price)
}

/// C09 reference (evaluated at a different call site than the one under test, on the SDK's model of the
/// same account bytes): is the position liquidatable at these prices once the fee state is brought up to the
/// chain time (by the program's own update_fees_state on a fork)? `None` if the SDK model cannot be built.
pub fn sdk_liquidatable(w: &World, d: &Dep, mi: usize, position: &Pubkey, prices: &Prices<u128>, for_liquidation: bool) -> Option<bool> {
    sdk_liquidatable_reason(w, d, mi, position, prices, for_liquidation).map(|r| r.is_some())
}

/// Like [`sdk_liquidatable`], returning the reason (`MinCollateral`, `NotPositive`, `MinCollateralForLeverage`).
pub fn sdk_liquidatable_reason(w: &World, d: &Dep, mi: usize, position: &Pubkey, prices: &Prices<u128>, for_liquidation: bool) -> Option<Option<String>> {
    use gmsol_model::PositionExt;
    use gmsol_programs::gmsol_store::accounts::Position as SdkPosition;
    use gmsol_programs::model::PositionModel;
    let mk = &d.markets[mi];
    // Bring the market's fee state (impact distribution, borrowing, funding) up to the chain time with the
    // program's own `update_fees_state` on a fork: the SDK model cannot update the borrowing state itself.
    let mut f = w.clone();
    let out = f.process(chainsim::ex::update_fees_state_ix(d, mk));
    if !out.ok {
        return None;
    }
    let sdk = sdk_model(&f, &mk.market, &mk.market_token)?;
    gmsol_programs::model::verif_set_now(Some(w.clock.unix_timestamp));
    let data = w.data(position)?;
    let n = std::mem::size_of::<SdkPosition>();
    if data.len() < 8 + n {
        return None;
    }
    let p: SdkPosition = bytemuck::pod_read_unaligned(&data[8..8 + n]);
    let pm = PositionModel::new(sdk, Arc::new(p)).ok()?;
    let r = pm.check_liquidatable(prices, true, for_liquidation);
    if std::env::var_os("GMXSIM_DEBUG").is_some() {
        use gmsol_model::PositionState;
        eprintln!("sdk_liquidatable: for_liq={for_liquidation} result={r:?} size_usd={} size_tokens={} collateral={} prices={prices:?} pnl={:?} collateral_value={:?}", pm.size_in_usd(), pm.size_in_tokens(), pm.collateral_amount(), pm.pnl_value(prices, pm.size_in_usd()), pm.collateral_value(prices));
    }
    r.ok().map(|r| r.map(|x| format!("{x:?}")))
}

/// pnl-to-pool factor (maximised, as the ADL check uses it) of one side, on the SDK's model of the market
/// account in `w` (the fee state is brought up to date with the program's update_fees_state on a fork when
/// `refresh` is set). Returns `(factor, max_for_adl, min_after_adl)`.
pub fn sdk_pnl_factor(w: &World, d: &Dep, mi: usize, prices: &Prices<u128>, is_long: bool, refresh: bool) -> Option<(i128, u128, u128)> {
    use gmsol_model::BaseMarketExt;
    let mk = &d.markets[mi];
    let f;
    let src = if refresh {
        let mut x = w.clone();
        if !x.process(chainsim::ex::update_fees_state_ix(d, mk)).ok {
            return None;
        }
        f = x;
        &f
    } else {
        w
    };
    let sdk = sdk_model(src, &mk.market, &mk.market_token)?;
    gmsol_programs::model::verif_set_now(Some(w.clock.unix_timestamp));
    let factor = sdk.pnl_factor(prices, is_long, true).ok()?;
    let max = sdk.pnl_factor_config(PnlFactorKind::ForAdl, is_long).ok()?;
    let min = sdk.pnl_factor_config(PnlFactorKind::MinAfterAdl, is_long).ok()?;
    Some((factor, max, min))
}
