//! Scenario crate `scn-exchange`: the exchange lifecycle on the in-process cluster.

pub mod c32;
pub mod c40;
pub mod exchange;

use simcore::{CheckSpec, Part};

pub const PROPERTIES: &[&str] = &["C22", "C23", "C44", "C21", "C09", "C19", "C40", "C32"];

const CHAIN_ASSUMPTIONS: &[&str] = &[
    "programs run natively on the host, not in the SBF VM: compute budget, stack/heap limits and transaction size are not modelled",
    "signatures are not verified (a signer is a flag on the account meta); the runtime stub enforces Solana's privilege rules and transaction atomicity",
    "oracle prices come from custom Chainlink price feeds through the mock verifier; Pyth / Switchboard paths are not covered",
    "a clean batch is evidence over the sampled plans, not a proof",
];

fn assumptions(extra: &[&str]) -> Vec<String> {
    CHAIN_ASSUMPTIONS.iter().chain(extra.iter()).map(|s| s.to_string()).collect()
}

pub fn registry(property: &str) -> Option<CheckSpec> {
    let (level, q, t, extra): (&'static str, u64, u64, Vec<&str>) = match property {
        "C22" => ("exploration", 3_000, 100_000, vec![]),
        "C23" => ("fault_enumeration", 3_000, 100_000, vec!["GLV actions are covered by the GLV scenario"]),
        "C44" => ("exploration", 3_000, 100_000, vec!["hop-by-hop balance oracle is applied to swap orders; deposits/withdrawals/position orders with paths are checked for path validity at creation and for solvency"]),
        "C21" => ("fault_enumeration", 3_000, 100_000, vec!["chain part: every soft-failed execution is followed by a fork comparison (world with the abandoned operation vs world without it)"]),
        "C09" => ("exploration", 3_000, 100_000, vec!["chain part: liquidations always close the whole position; health predicates are checked in marketsim"]),
        "C19" => ("fault_enumeration", 2_000, 60_000, vec![]),
        "C32" => ("exploration", 1_000, 40_000, vec!["at this commit every execution call site passes a builder fee factor of 0 (TODO(builder-fee) in ops/order.rs) and no instruction checkpoints a builder onto an order: the fee arithmetic (compute / clamp / charge-on-increment / withdrawal estimate) is therefore evaluated through a cfg-guarded hook on the sizes, prices, increments and outputs of the position orders executed in the simulated histories, and the charge is recorded on the order account by the simulator (stub) so that the real settle_builder_fee instruction runs, incl. duplicated settlements", "fee reference accepts both placements of the intermediate rounding of size x factor"]),
        "C40" => ("translation_validation", 1_500, 50_000, vec!["the SDK side is gmsol_programs::model::MarketModel built from the same account bytes; its wall clock is replaced by the chain time through the cfg(gmsol_verif) hook", "replayed operations: update_fees_state, deposits and withdrawals without swap paths; position orders and swaps are compared at the decoding level only", "prices are those the program's own oracle accepts (obtained by running set_prices_from_price_feed on a fork)"]),
        _ => return None,
    };
    let property: &'static str = PROPERTIES.iter().find(|p| **p == property)?;
    Some(CheckSpec { property, level, parts: vec![Part::new(exchange::Exchange, q, t)], assumptions: assumptions(&extra) })
}
