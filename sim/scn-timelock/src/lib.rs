//! Scenario crate `scn-timelock` (chain-level simulation on the chainsim runtime).
//!
//! C36 "Timelocked instructions run only as approved, after the delay": the real `gmsol_timelock` and
//! `gmsol_store` entrypoints are driven through whole buffer lifecycles (create → approve → execute | cancel)
//! interleaved with role changes, delay increases, clock anomalies and network faults; a small reference model
//! (per-buffer state machine + role table + delay) decides which transactions are allowed to succeed, and the
//! instruction seen at the CPI boundary is compared with what the plan buffered.

pub mod plan;
pub mod sim;

use simcore::{CheckSpec, Part};

pub const PROPERTIES: &[&str] = &["C36"];

pub fn registry(property: &str) -> Option<CheckSpec> {
    match property {
        "C36" => Some(CheckSpec {
            property: "C36",
            level: "exploration",
            parts: vec![Part::new(sim::Timelock, 60_000, 4_000_000)],
            assumptions: vec![
                "chainsim runtime stub (accounts db, loader, CPI privilege checks, sysvars) stands in for the Solana runtime; signatures are not verified: an actor 'signs' exactly the transactions the plan attributes to it".into(),
                "buffered instructions target the store program (role table, config, features, authority hand-over) plus junk shapes; buffers of 0–12 accounts and 0–200 data bytes".into(),
                "the RESTART_ADMIN role is never enabled: after a cluster restart every role check fails until the store admin refreshes the restart slot (the by-design RESTART_ADMIN override of role checks is out of scope)".into(),
                "unix timestamps stay below 2^62 so that approved_at + delay never saturates".into(),
            ],
        }),
        // C19 part for the timelock program: byzantine twins of every landed privileged timelock transaction.
        "C19" => Some(CheckSpec {
            property: "C19",
            level: "fault_enumeration",
            parts: vec![Part::new(sim::Timelock, 25_000, 400_000)],
            assumptions: vec![
                "timelock program only; the documented privilege per instruction: initialize_config / increase_delay / cancel_instruction(s): TIMELOCK_ADMIN; create_instruction_buffer / execute_instruction: TIMELOCK_KEEPER; approve_instruction(s): __TLD_<executor role>; revoke_role: __TLD_ADMIN; set_expected_price_provider: __TLD_MARKET_KEEPER".into(),
                "twins run on a fork of the pre-state of a transaction that landed with a rightful signer; the 'every other role' twin gets its roles by editing the store account of the fork with the store's own `Store::grant`".into(),
                "chainsim runtime stub stands in for the Solana runtime; signatures are not verified".into(),
            ],
        }),
        _ => None,
    }
}
