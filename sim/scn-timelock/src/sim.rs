//! Execution of timelock plans against the real programs, reference model and oracles (C36).

use std::collections::{BTreeMap, BTreeSet};
use std::sync::OnceLock;

use anchor_lang::{InstructionData, ToAccountMetas};
use chainsim::deploy::{self, any_ix, expect_ok, read_pod, store_ix, Dep};
use chainsim::rt::{TxOpts, TxOutcome, World};
use gmsol_store::states::Store;
use gmsol_timelock as tl;
use simcore::{Components, Obs, Scenario, Tier};
use solana_program::{
    hash::hashv,
    instruction::{AccountMeta, Instruction},
    pubkey::Pubkey,
    system_program,
};

use crate::plan::*;

const P: &str = "C36";
const EXTREME_TS: i64 = 4_000_000_000_000_000_000;

pub struct Timelock;

// ---------------------------------------------------------------------------------------------
// Addresses
// ---------------------------------------------------------------------------------------------

pub struct Pdas {
    pub store: Pubkey,
    pub config: Pubkey,
    pub execs: [Pubkey; 4],
    pub wallets: [Pubkey; 4],
}

fn role_seed(role: &str) -> [u8; 32] {
    let mut b = [0u8; 32];
    b[..role.len()].copy_from_slice(role.as_bytes());
    b
}

pub fn pdas() -> &'static Pdas {
    static P: OnceLock<Pdas> = OnceLock::new();
    P.get_or_init(|| {
        let store = deploy::find_store();
        let config = Pubkey::find_program_address(&[b"timelock_config", store.as_ref()], &tl::ID).0;
        let mut execs = [Pubkey::default(); 4];
        let mut wallets = [Pubkey::default(); 4];
        for (i, r) in EXEC_ROLES.iter().enumerate() {
            execs[i] = Pubkey::find_program_address(&[b"timelock_executor", store.as_ref(), &role_seed(r)], &tl::ID).0;
            wallets[i] = Pubkey::find_program_address(&[b"wallet", execs[i].as_ref()], &tl::ID).0;
        }
        Pdas { store, config, execs, wallets }
    })
}

fn derived_key(tag: &str, n: u64) -> Pubkey {
    Pubkey::new_from_array(hashv(&[b"scn-timelock", tag.as_bytes(), &n.to_le_bytes()]).to_bytes())
}

fn tl_ix(accounts: impl ToAccountMetas, args: impl InstructionData) -> Instruction {
    any_ix(tl::ID, accounts, args)
}

// ---------------------------------------------------------------------------------------------
// Reference model
// ---------------------------------------------------------------------------------------------

#[derive(Clone, Debug, PartialEq)]
enum Effect {
    None,
    Grant(Pubkey, String),
    Revoke(Pubkey, String),
    Enable(String),
    Disable(String),
    Amount(String, u64),
    Factor(String, u128),
    Address(Pubkey),
    Feature(u8, u8, bool),
    SetNext(Pubkey),
    Accept(Pubkey),
}

#[derive(Clone, Copy, Debug, PartialEq)]
enum BState {
    Created,
    Approved { by: Pubkey, at: i64, delay_then: u64 },
    Executed,
    Cancelled,
}

impl BState {
    fn name(&self) -> &'static str {
        match self {
            BState::Created => "created",
            BState::Approved { .. } => "approved",
            BState::Executed => "executed",
            BState::Cancelled => "cancelled",
        }
    }
}

#[derive(Clone, Debug)]
struct Buf {
    exec: usize,
    rent_receiver: Pubkey,
    /// What the plan buffered: program id, account list with flags, data.
    expected: Instruction,
    effect: Effect,
    state: BState,
    live: bool,
}

#[derive(Default)]
struct Model {
    enabled: BTreeSet<String>,
    grants: BTreeSet<(Pubkey, String)>,
    authority: Pubkey,
    next_authority: Pubkey,
    delay: Option<u64>,
    bufs: BTreeMap<Pubkey, Buf>,
    amounts: BTreeMap<String, u64>,
    factors: BTreeMap<String, u128>,
    holding: Pubkey,
    features: BTreeMap<(u8, u8), bool>,
}

impl Model {
    fn has(&self, user: &Pubkey, role: &str) -> bool {
        self.enabled.contains(role) && self.grants.contains(&(*user, role.to_string()))
    }

    fn apply(&mut self, e: &Effect) {
        match e {
            Effect::None => {}
            Effect::Grant(u, r) => {
                self.grants.insert((*u, r.clone()));
            }
            Effect::Revoke(u, r) => {
                self.grants.remove(&(*u, r.clone()));
            }
            Effect::Enable(r) => {
                self.enabled.insert(r.clone());
            }
            Effect::Disable(r) => {
                self.enabled.remove(r);
            }
            Effect::Amount(k, v) => {
                self.amounts.insert(k.clone(), *v);
            }
            Effect::Factor(k, v) => {
                self.factors.insert(k.clone(), *v);
            }
            Effect::Address(a) => self.holding = *a,
            Effect::Feature(d, a, en) => {
                self.features.insert((*d, *a), !*en);
            }
            Effect::SetNext(k) => self.next_authority = *k,
            Effect::Accept(k) => {
                self.authority = *k;
            }
        }
    }
}

fn tld_name(exec: usize) -> String {
    // own spelling of the timelocked role name
    format!("__TLD_{}", EXEC_ROLES[exec % 4])
}

// ---------------------------------------------------------------------------------------------
// Transactions in flight
// ---------------------------------------------------------------------------------------------

#[derive(Clone, Debug)]
enum Intent {
    InitExecutor,
    StoreTransfer { to: Pubkey },
    StoreAccept { who: Pubkey },
    InitConfig { delay: u32 },
    Create { key: Pubkey, buf: Buf },
    Approve { keys: Vec<Pubkey>, by: Pubkey },
    Cancel { keys: Vec<Pubkey> },
    Execute { key: Pubkey },
    IncreaseDelay { delta: u32 },
    RoleChange { effect: Effect },
    UpdateRestart,
    SetProvider,
}

#[derive(Clone, Debug)]
struct Tx {
    ixs: Vec<Instruction>,
    opts: TxOpts,
    intent: Intent,
    role: &'static str,
    op: &'static str,
    /// Documented privilege of the (timelock) instruction: (instruction name, required role).
    privileged: Option<(&'static str, String)>,
}

impl Tx {
    /// Fee payer / authority of the transaction (first signer).
    fn signer(&self) -> Option<Pubkey> {
        self.ixs.first().and_then(|ix| ix.accounts.iter().find(|a| a.is_signer).map(|a| a.pubkey))
    }
}

struct Sim<'a> {
    cfg: &'a Cfg,
    w: World,
    p: &'static Pdas,
    /// actors then the four executor wallets
    principals: Vec<Pubkey>,
    n_actors: usize,
    other_keeper: Pubkey,
    m: Model,
    pending: Vec<(usize, Tx, &'static str)>,
    token_map: Pubkey,
    token: Pubkey,
}

fn domain_flag(d: u8) -> Option<gmsol_store::states::feature::DomainDisabledFlag> {
    DOMAINS[d as usize % DOMAINS.len()].parse().ok()
}
fn action_flag(a: u8) -> Option<gmsol_store::states::feature::ActionDisabledFlag> {
    ACTIONS[a as usize % ACTIONS.len()].parse().ok()
}

impl<'a> Sim<'a> {
    fn new(cfg: &'a Cfg) -> Self {
        let p = pdas();
        // Base world (programs, store, admin, keeper with the standard roles, timelock roles enabled): a constant,
        // built once and cloned.
        static BASE: OnceLock<(World, Dep)> = OnceLock::new();
        deploy::init_thread();
        let (mut w, d) = BASE
            .get_or_init(|| {
                let mut w = World::new(1_700_000_000, 1000);
                // store + token map with one token (needed by the `set_expected_price_provider` bypass)
                let d: Dep = deploy::deploy_full(
                    &mut w,
                    &deploy::DeployOpts {
                        tokens: vec![deploy::TokenSpec { name: "SOL", decimals: 9, precision: 4, synthetic: false, schema: 3, heartbeat: 120 }],
                        markets: vec![],
                        n_users: 0,
                        user_token_amount: 0,
                        start_ts: 1_700_000_000,
                        start_slot: 1000,
                    },
                );
                for r in &ROLE_NAMES[0..6] {
                    expect_ok(
                        "enable tl role",
                        w.process(store_ix(
                            gmsol_store::accounts::EnableRole { authority: d.admin, store: d.store },
                            gmsol_store::instruction::EnableRole { role: r.to_string() },
                        )),
                    );
                }
                (w, d)
            })
            .clone();
        w.clock.unix_timestamp = cfg.start_ts.max(1_700_000_000);
        let mut m = Model::default();
        for r in deploy::ALL_ROLES {
            m.enabled.insert(r.to_string());
            m.grants.insert((d.keeper, r.to_string()));
        }
        for r in &ROLE_NAMES[0..6] {
            m.enabled.insert(r.to_string());
        }
        let mut principals = vec![];
        for (i, a) in cfg.actors.iter().enumerate() {
            let k = if i == 0 { d.admin } else { derived_key("actor", i as u64) };
            if i != 0 {
                w.fund(&k, 1_000_000_000_000);
            }
            principals.push(k);
            let mut seen = BTreeSet::new();
            for r in &a.roles {
                if *r >= N_GRANTABLE || !seen.insert(*r) {
                    continue;
                }
                let role = ROLE_NAMES[*r as usize];
                expect_ok(
                    "grant actor role",
                    w.process(store_ix(
                        gmsol_store::accounts::GrantRole { authority: d.admin, store: d.store },
                        gmsol_store::instruction::GrantRole { user: k, role: role.to_string() },
                    )),
                );
                m.grants.insert((k, role.to_string()));
            }
        }
        let n_actors = principals.len();
        for e in 0..4 {
            principals.push(p.wallets[e]);
            if e > 0 && cfg.wallet_roles.get(e).copied().unwrap_or(true) {
                expect_ok(
                    "grant wallet role",
                    w.process(store_ix(
                        gmsol_store::accounts::GrantRole { authority: d.admin, store: d.store },
                        gmsol_store::instruction::GrantRole { user: p.wallets[e], role: EXEC_ROLES[e].to_string() },
                    )),
                );
                m.grants.insert((p.wallets[e], EXEC_ROLES[e].to_string()));
            }
        }
        m.authority = d.admin;
        m.next_authority = d.admin;
        // initial config values are observations of the fixture
        let store: Store = read_pod(&w, &p.store).expect("store");
        for k in &AMOUNT_KEYS[0..4] {
            m.amounts.insert(k.to_string(), *store.get_amount(k).expect("amount"));
        }
        for k in &FACTOR_KEYS[0..3] {
            m.factors.insert(k.to_string(), *store.get_factor(k).expect("factor"));
        }
        m.holding = *store.get_address("holding").expect("holding");
        Sim { cfg, w, p, principals, n_actors, other_keeper: d.keeper, m, pending: vec![], token_map: d.token_map, token: d.tokens[0].mint }
    }

    fn actor(&self, i: u8) -> Pubkey {
        self.principals[i as usize % self.n_actors]
    }
    fn actor_label(&self, i: u8) -> &'static str {
        self.cfg.actors[i as usize % self.n_actors].kind.label()
    }
    fn principal(&self, i: u8) -> Pubkey {
        self.principals[i as usize % self.principals.len()]
    }
    fn buf_key(slot: u8) -> Pubkey {
        derived_key("buffer", slot as u64)
    }

    fn extra_key(&self, acc: u8, exec: usize, buffer: &Pubkey) -> Pubkey {
        match acc {
            0..=99 => self.principal(acc),
            120 => self.p.store,
            121 => self.p.config,
            122 => self.p.wallets[exec],
            123 => system_program::ID,
            124 => *buffer,
            _ => derived_key("junk", acc as u64),
        }
    }

    /// The instruction a client wants the timelock to run (executor wallet as authority / signer) and its meaning.
    fn build_target(&self, t: &Target, exec: usize) -> (Instruction, Effect) {
        let wallet = self.p.wallets[exec];
        let store = self.p.store;
        let role = |r: u8| ROLE_NAMES[r as usize % ROLE_NAMES.len()].to_string();
        match t {
            Target::Grant { user, role: r } => {
                let u = self.principal(*user);
                (
                    store_ix(
                        gmsol_store::accounts::GrantRole { authority: wallet, store },
                        gmsol_store::instruction::GrantRole { user: u, role: role(*r) },
                    ),
                    Effect::Grant(u, role(*r)),
                )
            }
            Target::Revoke { user, role: r } => {
                let u = self.principal(*user);
                (
                    store_ix(
                        gmsol_store::accounts::RevokeRole { authority: wallet, store },
                        gmsol_store::instruction::RevokeRole { user: u, role: role(*r) },
                    ),
                    Effect::Revoke(u, role(*r)),
                )
            }
            Target::Enable { role: r } => (
                store_ix(
                    gmsol_store::accounts::EnableRole { authority: wallet, store },
                    gmsol_store::instruction::EnableRole { role: role(*r) },
                ),
                Effect::Enable(role(*r)),
            ),
            Target::Disable { role: r } => (
                store_ix(
                    gmsol_store::accounts::DisableRole { authority: wallet, store },
                    gmsol_store::instruction::DisableRole { role: role(*r) },
                ),
                Effect::Disable(role(*r)),
            ),
            Target::Amount { key, value } => {
                let k = AMOUNT_KEYS[*key as usize % AMOUNT_KEYS.len()].to_string();
                (
                    store_ix(
                        gmsol_store::accounts::InsertConfig { authority: wallet, store },
                        gmsol_store::instruction::InsertAmount { key: k.clone(), amount: *value },
                    ),
                    Effect::Amount(k, *value),
                )
            }
            Target::Factor { key, value, shift } => {
                let k = FACTOR_KEYS[*key as usize % FACTOR_KEYS.len()].to_string();
                let f = (*value as u128) << (*shift as u32 % 65);
                (
                    store_ix(
                        gmsol_store::accounts::InsertConfig { authority: wallet, store },
                        gmsol_store::instruction::InsertFactor { key: k.clone(), factor: f },
                    ),
                    Effect::Factor(k, f),
                )
            }
            Target::Address { user } => {
                let u = self.principal(*user);
                (
                    store_ix(
                        gmsol_store::accounts::InsertConfig { authority: wallet, store },
                        gmsol_store::instruction::InsertAddress { key: "holding".into(), address: u },
                    ),
                    Effect::Address(u),
                )
            }
            Target::OrderFeeDiscount { value, shift } => {
                let f = (*value as u128) << (*shift as u32 % 65);
                (
                    store_ix(
                        gmsol_store::accounts::InsertConfig { authority: wallet, store },
                        gmsol_store::instruction::InsertOrderFeeDiscountForReferredUser { factor: f },
                    ),
                    Effect::Factor("order_fee_discount_for_referred_user".into(), f),
                )
            }
            Target::Feature { domain, action, enable } => (
                store_ix(
                    gmsol_store::accounts::ToggleFeature { authority: wallet, store },
                    gmsol_store::instruction::ToggleFeature {
                        domain: DOMAINS[*domain as usize % DOMAINS.len()].into(),
                        action: ACTIONS[*action as usize % ACTIONS.len()].into(),
                        enable: *enable,
                    },
                ),
                Effect::Feature(*domain % DOMAINS.len() as u8, *action % ACTIONS.len() as u8, *enable),
            ),
            Target::TransferAuthority { to } => {
                let k = self.principal(*to);
                (
                    store_ix(
                        gmsol_store::accounts::TransferStoreAuthority { authority: wallet, store, next_authority: k },
                        gmsol_store::instruction::TransferStoreAuthority {},
                    ),
                    Effect::SetNext(k),
                )
            }
            Target::AcceptAuthority => (
                store_ix(
                    gmsol_store::accounts::AcceptStoreAuthority { next_authority: wallet, store },
                    gmsol_store::instruction::AcceptStoreAuthority {},
                ),
                Effect::Accept(wallet),
            ),
            Target::HasRole { user, role: r } => (
                store_ix(
                    gmsol_store::accounts::HasRole { store },
                    gmsol_store::instruction::HasRole { authority: self.principal(*user), role: role(*r) },
                ),
                Effect::None,
            ),
            Target::Raw { program, len, fill } => {
                let pid = match program % 4 {
                    0 => system_program::ID,
                    1 => gmsol_store::ID,
                    2 => tl::ID,
                    _ => derived_key("program", 0),
                };
                (Instruction { program_id: pid, accounts: vec![], data: vec![*fill; *len as usize] }, Effect::None)
            }
        }
    }

    /// Build the create transaction and the model entry that a success would establish.
    fn build_create(&self, slot: u8, by: u8, exec: u8, spec: &IxSpec) -> Tx {
        let exec = exec as usize % 4;
        let key = Self::buf_key(slot);
        let authority = self.actor(by);
        let (mut ix, effect) = self.build_target(&spec.target, exec);
        let natural = ix.accounts.len();
        for e in spec.extra.iter().take(12usize.saturating_sub(natural)) {
            ix.accounts.push(AccountMeta { pubkey: self.extra_key(e.acc, exec, &key), is_signer: false, is_writable: e.writable });
        }
        let n_added = ix.accounts.len() - natural;
        let wallet = self.p.wallets[exec];
        if spec.signers == SignerMode::WalletExtra && ix.accounts.len() < 12 {
            ix.accounts.push(AccountMeta { pubkey: wallet, is_signer: true, is_writable: false });
        }
        let room = 200usize.saturating_sub(ix.data.len());
        ix.data.extend(std::iter::repeat(spec.pad_fill).take((spec.pad as usize).min(room)));
        // signer indices as a client lists them
        let mut signers: Vec<u16> = vec![];
        if spec.signers != SignerMode::NoneListed {
            for (i, a) in ix.accounts.iter().enumerate() {
                if a.is_signer {
                    signers.push(i as u16);
                }
            }
        }
        match spec.signers {
            SignerMode::ExtraSigner(x) => {
                if n_added > 0 {
                    signers.push((natural + (x as usize).min(n_added - 1)) as u16);
                } else if !ix.accounts.is_empty() {
                    signers.push(ix.accounts.len() as u16 - 1);
                }
            }
            SignerMode::OutOfRange(n) => signers.push(n.max(ix.accounts.len() as u16)),
            _ => {}
        }
        let n = ix.accounts.len();
        let mut top = tl_ix(
            tl::accounts::CreateInstructionBuffer {
                authority,
                store: self.p.store,
                executor: self.p.execs[exec],
                instruction_buffer: key,
                instruction_program: ix.program_id,
                store_program: gmsol_store::ID,
                system_program: system_program::ID,
            },
            tl::instruction::CreateInstructionBuffer {
                num_accounts: n as u16,
                data_len: ix.data.len() as u16,
                data: ix.data.clone(),
                signers: signers.clone(),
            },
        );
        for a in &ix.accounts {
            top.accounts.push(AccountMeta { pubkey: a.pubkey, is_signer: false, is_writable: a.is_writable });
        }
        for j in 0..spec.uncounted {
            top.accounts.push(AccountMeta { pubkey: derived_key("uncounted", j as u64), is_signer: false, is_writable: j % 2 == 0 });
        }
        // What ends up buffered: privileges are message-wide on Solana, so an account that is writable anywhere in
        // the creating transaction (or is its fee payer) is seen as writable by the program.
        let mut msg_writable: Vec<Pubkey> = vec![authority];
        for a in &top.accounts {
            if a.is_writable && !msg_writable.contains(&a.pubkey) {
                msg_writable.push(a.pubkey);
            }
        }
        let expected = Instruction {
            program_id: ix.program_id,
            accounts: ix
                .accounts
                .iter()
                .enumerate()
                .map(|(i, a)| AccountMeta {
                    pubkey: a.pubkey,
                    is_signer: signers.contains(&(i as u16)),
                    is_writable: msg_writable.contains(&a.pubkey),
                })
                .collect(),
            data: ix.data.clone(),
        };
        let buf = Buf { exec, rent_receiver: authority, expected, effect, state: BState::Created, live: true };
        Tx { ixs: vec![top], opts: TxOpts::default(), intent: Intent::Create { key, buf }, role: self.actor_label(by), op: "create", privileged: Some(("create_instruction_buffer", "TIMELOCK_KEEPER".to_string())) }
    }

    fn build_execute(&self, key: Pubkey, b: &Buf, by: u8, twist: Twist) -> Tx {
        let authority = self.actor(by);
        let mut exec = b.exec;
        let mut rent_receiver = b.rent_receiver;
        let mut opts = TxOpts::default();
        let mut remaining: Vec<AccountMeta> =
            b.expected.accounts.iter().map(|a| AccountMeta { pubkey: a.pubkey, is_signer: false, is_writable: a.is_writable }).collect();
        match twist {
            Twist::None => {}
            Twist::WrongExecutor => exec = (exec + 1) % 4,
            Twist::WrongRentReceiver => rent_receiver = authority,
            Twist::SubstAccount => {
                if let Some(a) = remaining.first_mut() {
                    a.pubkey = derived_key("lookalike", 1);
                }
            }
            Twist::FailCpi(n) => opts.fail_cpi_at = Some(n as u64),
        }
        let mut ix = tl_ix(
            tl::accounts::ExecuteInstruction {
                authority,
                store: self.p.store,
                timelock_config: self.p.config,
                executor: self.p.execs[exec],
                wallet: self.p.wallets[exec],
                rent_receiver,
                instruction: key,
                store_program: gmsol_store::ID,
            },
            tl::instruction::ExecuteInstruction {},
        );
        ix.accounts.extend(remaining);
        Tx { ixs: vec![ix], opts, intent: Intent::Execute { key }, role: self.actor_label(by), op: "execute", privileged: Some(("execute_instruction", "TIMELOCK_KEEPER".to_string())) }
    }

    fn read_delay(&self) -> Option<u32> {
        read_pod::<tl::states::TimelockConfig>(&self.w, &self.p.config).map(|c| c.delay())
    }

    fn now(&self) -> i64 {
        self.w.clock.unix_timestamp
    }

    fn advance_to(&mut self, target: i64, obs: &mut Obs) {
        let now = self.now();
        if target > now {
            let dt = target - now;
            self.w.clock.unix_timestamp = target;
            self.w.clock.slot = self.w.clock.slot.saturating_add((dt as u64).saturating_mul(2).min(1 << 40)).saturating_add(1);
            obs.sim_seconds = obs.sim_seconds.saturating_add(dt as u64);
        }
    }

    fn eta(&self, key: &Pubkey) -> Option<i64> {
        let b = self.m.bufs.get(key)?;
        let BState::Approved { at, .. } = b.state else { return None };
        Some(at.saturating_add(self.m.delay? as i64))
    }

    // -----------------------------------------------------------------------------------------
    // Delivery and oracles
    // -----------------------------------------------------------------------------------------

    fn send(&mut self, i: usize, tx: Tx, net: Net, obs: &mut Obs) {
        match net {
            Net::Now => self.deliver(&tx, obs),
            Net::Lost => {
                obs.fault("tx_lost");
                obs.event(|| format!("LOST {}", tx.op));
            }
            Net::Delay(n) => self.pending.push((i + n as usize, tx, "tx_delayed")),
            Net::Dup(n) => {
                self.deliver(&tx, obs);
                self.pending.push((i + n as usize, tx, "tx_duplicated"));
            }
        }
    }

    fn flush(&mut self, upto: usize, obs: &mut Obs) {
        loop {
            let Some(pos) = self.pending.iter().position(|(due, _, _)| *due <= upto) else { break };
            let (_, tx, kind) = self.pending.remove(pos);
            obs.fault(kind);
            obs.event(|| format!("LATE {} ({kind})", tx.op));
            self.deliver(&tx, obs);
            if obs.should_stop() {
                return;
            }
        }
    }

    /// C19: the landed privileged transaction `tx`, replayed on forks of its pre-state with the authority replaced
    /// by (a) an address without any role and (b) an address holding every role except the required one, must be
    /// rejected and leave every account unchanged.
    fn twins(&self, pre: &World, tx: &Tx, ix_name: &'static str, required: &str, obs: &mut Obs) {
        for (variant, n) in [("no_role", 0u64), ("every_other_role", 1)] {
            let twin = derived_key("twin", n);
            let mut fork = pre.clone();
            fork.fund(&twin, 1_000_000_000_000);
            if n == 1 {
                let Some(mut store) = read_pod::<Store>(&fork, &self.p.store) else { return };
                let names: Vec<String> = store.role().roles().filter_map(|r| r.ok().map(|x| x.to_string())).collect();
                for r in &names {
                    if r != required {
                        let _ = store.grant(&twin, r);
                    }
                }
                let bytes = bytemuck::bytes_of(&store);
                if let Some(a) = fork.accounts.get_mut(&self.p.store) {
                    a.data[8..8 + bytes.len()].copy_from_slice(bytes);
                }
            }
            let mut ixs = tx.ixs.clone();
            let Some(first) = ixs.first_mut().and_then(|ix| ix.accounts.first_mut()) else { return };
            if !first.is_signer {
                return;
            }
            first.pubkey = twin;
            let snapshot = fork.accounts.clone();
            let out = fork.process_tx(&ixs, &TxOpts::default());
            obs.fault("byzantine_twin");
            obs.probe(&format!("c19_twin:timelock.{ix_name}"));
            obs.probe(&format!("c19_twin_out:{variant}:{}", out.class()));
            obs.outcome(if n == 0 { "twin_no_role" } else { "twin_every_other_role" }, ix_name, &out.class());
            obs.event(|| format!("TWIN {variant} of {ix_name} -> {}", out.class()));
            if !obs.require(
                !out.ok,
                "C19",
                "stranger_accepted",
                || format!("ix={ix_name},variant={variant},program=timelock"),
                || format!("timelock {ix_name} landed when signed by an address {} (required: {required})", if n == 0 { "without any role".to_string() } else { format!("holding every role except {required}") }),
            ) {
                return;
            }
            if !obs.require(
                fork.accounts == snapshot,
                "C19",
                "rejection_changed_state",
                || format!("ix={ix_name},variant={variant},program=timelock"),
                || format!("rejected timelock {ix_name} ({}) changed accounts", out.class()),
            ) {
                return;
            }
        }
    }

    fn deliver(&mut self, tx: &Tx, obs: &mut Obs) {
        let delay_before = self.read_delay();
        let pre = (self.cfg.twins && tx.privileged.is_some()).then(|| self.w.clone());
        let out = self.w.process_tx(&tx.ixs, &tx.opts);
        if let (true, Some(pre), Some((ix_name, required))) = (out.ok, pre, tx.privileged.as_ref()) {
            self.twins(&pre, tx, ix_name, required, obs);
            if obs.should_stop() {
                return;
            }
        }
        let class = out.class();
        obs.outcome(tx.role, tx.op, &class);
        obs.probe(&format!("out:{}:{}", tx.op, class));
        obs.event(|| format!("{} by {} -> {} t={}", tx.op, tx.role, class, self.w.clock.unix_timestamp));
        if tx.opts.fail_cpi_at.is_some() && !out.ok {
            obs.fault("cpi_failure_injected");
        }
        // The delay can only increase.
        let delay_after = self.read_delay();
        if let (Some(b), a) = (delay_before, delay_after) {
            obs.require(
                a.map_or(false, |a| a >= b),
                P,
                "delay_monotone",
                || format!("op={}", tx.op),
                || format!("configured delay went from {b} to {a:?}"),
            );
            if obs.should_stop() {
                return;
            }
        }
        if out.ok {
            self.on_ok(tx, &out, obs);
            if obs.should_stop() {
                return;
            }
            self.sync(matches!(tx.intent, Intent::Execute { .. }), obs);
        }
    }

    fn on_ok(&mut self, tx: &Tx, out: &TxOutcome, obs: &mut Obs) {
        let now = self.now();
        // Informational only (authorisation of keeper/admin operations is not part of C36): these stay at zero.
        if let Some(signer) = tx.signer() {
            let need = match tx.intent {
                Intent::Create { .. } | Intent::Execute { .. } => Some("TIMELOCK_KEEPER"),
                Intent::Cancel { .. } | Intent::IncreaseDelay { .. } | Intent::InitConfig { .. } => Some("TIMELOCK_ADMIN"),
                _ => None,
            };
            if let Some(r) = need {
                if !self.m.has(&signer, r) {
                    obs.probe(&format!("unauthorised_{}_succeeded", tx.op));
                }
            }
        }
        match &tx.intent {
            Intent::InitExecutor => {}
            Intent::StoreTransfer { to } => self.m.next_authority = *to,
            Intent::StoreAccept { who } => self.m.authority = *who,
            Intent::InitConfig { delay } => {
                self.m.delay = Some(*delay as u64);
                self.m.authority = self.p.wallets[0];
                obs.probe("config_initialised");
            }
            Intent::Create { key, buf } => {
                if let Some(old) = self.m.bufs.get(key) {
                    obs.require(!old.live, P, "model_sync", || "create_over_live".into(), || format!("buffer {key} created while the model has it live"));
                    obs.probe("buffer_address_reused");
                }
                match buf.expected.accounts.len() {
                    0 => obs.probe("shape_accounts_0"),
                    1..=3 => obs.probe("shape_accounts_1_3"),
                    4..=8 => obs.probe("shape_accounts_4_8"),
                    _ => obs.probe("shape_accounts_9_12"),
                }
                match buf.expected.data.len() {
                    0 => obs.probe("shape_data_0"),
                    1..=63 => obs.probe("shape_data_1_63"),
                    64..=149 => obs.probe("shape_data_64_149"),
                    _ => obs.probe("shape_data_150_200"),
                }
                self.m.bufs.insert(*key, buf.clone());
            }
            Intent::Approve { keys, by } => {
                for key in keys {
                    let Some(b) = self.m.bufs.get(key).cloned() else {
                        obs.violation(P, "approve_once", "state=unknown".into(), format!("approval of unknown buffer {key} succeeded"));
                        return;
                    };
                    // Approval happens at most once (and only on a live, not yet approved buffer).
                    if !obs.require(
                        b.live && b.state == BState::Created,
                        P,
                        "approve_once",
                        || format!("state={}", b.state.name()),
                        || format!("approve of buffer {key} in state {:?} (live={}) succeeded", b.state, b.live),
                    ) {
                        return;
                    }
                    // Approved by a holder of the corresponding timelocked role.
                    let role = tld_name(b.exec);
                    if !obs.require(
                        self.m.has(by, &role),
                        P,
                        "approve_holder",
                        || format!("role={role}"),
                        || format!("{by} approved buffer {key} without holding {role}"),
                    ) {
                        return;
                    }
                    self.m.bufs.get_mut(key).unwrap().state = BState::Approved { by: *by, at: now, delay_then: self.m.delay.unwrap_or(0) };
                    // the recorded approval is (by, now)
                    if let Some(h) = read_pod::<tl::states::InstructionHeader>(&self.w, key) {
                        obs.require(
                            h.approved_at() == Some(now) && h.apporver() == Some(by),
                            P,
                            "approve_record",
                            String::new,
                            || format!("header records approved_at={:?} approver={:?}, expected {now} {by}", h.approved_at(), h.apporver()),
                        );
                    }
                    obs.probe("approved");
                }
            }
            Intent::Cancel { keys } => {
                for key in keys {
                    match self.m.bufs.get_mut(key) {
                        Some(b) if b.live => {
                            if matches!(b.state, BState::Approved { .. }) {
                                obs.probe("cancel_after_approval");
                            }
                            b.state = BState::Cancelled;
                            b.live = false;
                        }
                        _ => {
                            obs.violation(P, "model_sync", "cancel_of_dead".into(), format!("cancel of non-live buffer {key} succeeded"));
                            return;
                        }
                    }
                }
            }
            Intent::Execute { key } => self.on_execute_ok(*key, out, obs),
            Intent::IncreaseDelay { delta } => {
                if let Some(d) = self.m.delay {
                    self.m.delay = Some(d + *delta as u64);
                }
                obs.probe("delay_increased");
            }
            Intent::RoleChange { effect } => {
                let e = effect.clone();
                self.m.apply(&e);
            }
            Intent::UpdateRestart => obs.probe("restart_slot_updated"),
            Intent::SetProvider => obs.probe("expected_provider_changed"),
        }
    }

    fn on_execute_ok(&mut self, key: Pubkey, out: &TxOutcome, obs: &mut Obs) {
        let now = self.now();
        let Some(b) = self.m.bufs.get(&key).cloned() else {
            obs.violation(P, "exec_once", "state=unknown".into(), format!("execution of unknown buffer {key} succeeded"));
            return;
        };
        // Executed or cancelled buffers cannot run again.
        if !obs.require(
            b.live && !matches!(b.state, BState::Executed | BState::Cancelled),
            P,
            "exec_once",
            || format!("state={}", b.state.name()),
            || format!("buffer {key} in state {:?} (live={}) was executed", b.state, b.live),
        ) {
            return;
        }
        // Only approved buffers run.
        let BState::Approved { by, at, .. } = b.state else {
            obs.violation(P, "exec_requires_approval", format!("state={}", b.state.name()), format!("buffer {key} executed without approval"));
            return;
        };
        obs.checked("exec_requires_approval");
        // The approver still holds the timelocked role.
        let role = tld_name(b.exec);
        if !obs.require(
            self.m.has(&by, &role),
            P,
            "exec_approver_holds_role",
            || format!("role={role},enabled={}", self.m.enabled.contains(&role)),
            || format!("buffer {key} executed although approver {by} no longer holds {role}"),
        ) {
            return;
        }
        // At least the configured delay has passed since approval.
        let delay = self.m.delay.unwrap_or(0);
        let elapsed = now as i128 - at as i128;
        if !obs.require(
            self.m.delay.is_some() && elapsed >= delay as i128,
            P,
            "exec_delay",
            || format!("delay_zero={},elapsed_negative={}", delay == 0, elapsed < 0),
            || format!("buffer {key} executed {elapsed}s after approval (approved_at={at}, now={now}) with configured delay {delay}"),
        ) {
            return;
        }
        if elapsed == delay as i128 {
            obs.probe("executed_exactly_at_delay");
        } else {
            obs.probe("executed_after_delay");
        }
        // Exactness at the CPI boundary.
        let wallet = self.p.wallets[b.exec];
        let signed: Vec<_> = out.cpis.iter().filter(|c| c.caller == tl::ID && c.depth == 1 && !c.pda_signers.is_empty()).collect();
        if !obs.require(
            signed.len() == 1,
            P,
            "exact_ix",
            || "cpi_count".into(),
            || format!("{} PDA-signed CPIs issued by the timelock program", signed.len()),
        ) {
            return;
        }
        let c = signed[0];
        let e = &b.expected;
        let what = if c.ix.program_id != e.program_id {
            Some("program_id")
        } else if c.ix.data != e.data {
            Some("data")
        } else if c.ix.accounts.len() != e.accounts.len() {
            Some("num_accounts")
        } else if c.ix.accounts.iter().zip(e.accounts.iter()).any(|(x, y)| x.pubkey != y.pubkey) {
            Some("account_key")
        } else if c.ix.accounts.iter().zip(e.accounts.iter()).any(|(x, y)| x.is_writable != y.is_writable) {
            Some("writable_flag")
        } else if c.ix.accounts.iter().zip(e.accounts.iter()).any(|(x, y)| x.is_signer != y.is_signer) {
            Some("signer_flag")
        } else {
            None
        };
        if !obs.require(
            what.is_none(),
            P,
            "exact_ix",
            || format!("differs={}", what.unwrap_or("")),
            || format!("executed {:?} but buffered {:?}", c.ix, e),
        ) {
            return;
        }
        // Only the executor wallet may be a signer.
        let foreign = c.ix.accounts.iter().find(|a| a.is_signer && a.pubkey != wallet);
        if !obs.require(
            c.pda_signers == vec![wallet] && foreign.is_none(),
            P,
            "only_wallet_signs",
            || format!("pda_signers={},foreign_signer={}", c.pda_signers.len(), foreign.is_some()),
            || format!("pda signers {:?}, foreign signer meta {:?}, executor wallet {wallet}", c.pda_signers, foreign),
        ) {
            return;
        }
        match e.accounts.len() {
            0 => obs.probe("exec_accounts_0"),
            1..=3 => obs.probe("exec_accounts_1_3"),
            4..=8 => obs.probe("exec_accounts_4_8"),
            _ => obs.probe("exec_accounts_9_12"),
        }
        if e.data.len() >= 150 {
            obs.probe("exec_data_150_200");
        }
        let mb = self.m.bufs.get_mut(&key).unwrap();
        mb.state = BState::Executed;
        mb.live = false;
        let eff = b.effect.clone();
        if eff != Effect::None {
            obs.probe("executed_with_effect");
        }
        self.m.apply(&eff);
    }

    /// Compare the chain with the model (after a successful execute: the buffered instruction's effect).
    fn sync(&mut self, after_execute: bool, obs: &mut Obs) {
        let oracle = if after_execute { "effect" } else { "model_sync" };
        let Some(store) = read_pod::<Store>(&self.w, &self.p.store) else { return };
        let mut bad: Option<(String, String)> = None;
        let mut users: Vec<Pubkey> = self.principals.clone();
        users.push(self.other_keeper);
        'outer: for u in &users {
            for r in ROLE_NAMES.iter().chain(["MARKET_CONFIG_KEEPER", "ORACLE_CONTROLLER", "MIGRATION_KEEPER"].iter()) {
                let got = store.role().has_role(u, r).unwrap_or(false);
                let want = self.m.has(u, r);
                if got != want {
                    bad = Some(("role".into(), format!("{u} role {r}: chain {got}, model {want}")));
                    break 'outer;
                }
            }
        }
        if bad.is_none() && store.authority != self.m.authority {
            bad = Some(("authority".into(), format!("chain {} model {}", store.authority, self.m.authority)));
        }
        if bad.is_none() {
            for (k, v) in &self.m.amounts {
                if store.get_amount(k).ok().copied() != Some(*v) {
                    bad = Some(("amount".into(), format!("{k}: chain {:?} model {v}", store.get_amount(k).ok())));
                }
            }
            for (k, v) in &self.m.factors {
                if store.get_factor(k).ok().copied() != Some(*v) {
                    bad = Some(("factor".into(), format!("{k}: chain {:?} model {v}", store.get_factor(k).ok())));
                }
            }
            if store.get_address("holding").ok().copied() != Some(self.m.holding) {
                bad = Some(("address".into(), format!("holding: chain {:?} model {}", store.get_address("holding").ok(), self.m.holding)));
            }
            for ((d, a), disabled) in &self.m.features {
                if let (Some(df), Some(af)) = (domain_flag(*d), action_flag(*a)) {
                    if store.get_feature_disabled(df, af) != Some(*disabled) {
                        bad = Some(("feature".into(), format!("{d}/{a}: chain {:?} model {disabled}", store.get_feature_disabled(df, af))));
                    }
                }
            }
        }
        if bad.is_none() {
            for (k, b) in &self.m.bufs {
                // (an executed / cancelled buffer that still exists is not demanded to be gone: it must only never
                // run again, which `exec_once` checks)
                let exists = self.w.get(k).map_or(false, |a| a.owner == tl::ID && !a.data.is_empty());
                if b.live && !exists {
                    bad = Some(("buffer_liveness".into(), format!("{k}: chain exists={exists}, model live={} state {:?}", b.live, b.state)));
                }
            }
        }
        if bad.is_none() {
            let d = self.read_delay().map(|d| d as u64);
            if d != self.m.delay {
                bad = Some(("delay".into(), format!("chain {:?} model {:?}", d, self.m.delay)));
            }
        }
        obs.checked(oracle);
        if let Some((k, d)) = bad {
            obs.violation(P, oracle, format!("what={k}"), d);
        }
    }

    // -----------------------------------------------------------------------------------------
    // Steps
    // -----------------------------------------------------------------------------------------

    fn step(&mut self, i: usize, step: &Step, obs: &mut Obs) {
        if !matches!(step, Step::Clock(_)) && self.cfg.tick > 0 {
            let t = self.now().saturating_add(self.cfg.tick as i64);
            self.advance_to(t, obs);
        }
        let p = self.p;
        match step {
            Step::InitExecutor { by, exec } => {
                let e = *exec as usize % 4;
                let ix = tl_ix(
                    tl::accounts::InitializeExecutor {
                        payer: self.actor(*by),
                        store: p.store,
                        executor: p.execs[e],
                        wallet: p.wallets[e],
                        system_program: system_program::ID,
                    },
                    tl::instruction::InitializeExecutor { role: EXEC_ROLES[e].to_string() },
                );
                let tx = Tx { ixs: vec![ix], opts: TxOpts::default(), intent: Intent::InitExecutor, role: self.actor_label(*by), op: "init_executor", privileged: None };
                self.deliver(&tx, obs);
            }
            Step::StoreTransfer { by, to } => {
                let to = if *to == 0 { p.wallets[0] } else { self.principal(*to - 1) };
                let ix = store_ix(
                    gmsol_store::accounts::TransferStoreAuthority { authority: self.actor(*by), store: p.store, next_authority: to },
                    gmsol_store::instruction::TransferStoreAuthority {},
                );
                let tx = Tx { ixs: vec![ix], opts: TxOpts::default(), intent: Intent::StoreTransfer { to }, role: self.actor_label(*by), op: "store_transfer_authority", privileged: None };
                self.deliver(&tx, obs);
            }
            Step::StoreAccept { by } => {
                let who = self.actor(*by);
                let ix = store_ix(
                    gmsol_store::accounts::AcceptStoreAuthority { next_authority: who, store: p.store },
                    gmsol_store::instruction::AcceptStoreAuthority {},
                );
                let tx = Tx { ixs: vec![ix], opts: TxOpts::default(), intent: Intent::StoreAccept { who }, role: self.actor_label(*by), op: "store_accept_authority", privileged: None };
                self.deliver(&tx, obs);
            }
            Step::InitConfig { by, delay } => {
                let ix = tl_ix(
                    tl::accounts::InitializeConfig {
                        authority: self.actor(*by),
                        store: p.store,
                        timelock_config: p.config,
                        executor: p.execs[0],
                        wallet: p.wallets[0],
                        store_program: gmsol_store::ID,
                        system_program: system_program::ID,
                    },
                    tl::instruction::InitializeConfig { delay: *delay },
                );
                let tx = Tx { ixs: vec![ix], opts: TxOpts::default(), intent: Intent::InitConfig { delay: *delay }, role: self.actor_label(*by), op: "init_config", privileged: Some(("initialize_config", "TIMELOCK_ADMIN".to_string())) };
                self.deliver(&tx, obs);
            }
            Step::Create { slot, by, exec, spec, net } => {
                let tx = self.build_create(*slot, *by, *exec, spec);
                self.send(i, tx, *net, obs);
            }
            Step::Approve { slots, by, claim, batch, net } => {
                let keys: Vec<Pubkey> = slots.iter().map(|s| Self::buf_key(*s)).collect();
                if keys.is_empty() {
                    return;
                }
                let exec = match claim {
                    Claim::Correct => self.m.bufs.get(&keys[0]).map_or(0, |b| b.exec),
                    Claim::Exec(e) => *e as usize % 4,
                };
                let authority = self.actor(*by);
                for k in &keys {
                    if let Some(b) = self.m.bufs.get(k) {
                        if b.live && matches!(b.state, BState::Approved { .. }) {
                            obs.probe("approve_attempt_on_approved");
                        }
                        if b.live && !self.m.has(&authority, &tld_name(b.exec)) {
                            obs.probe("approve_attempt_by_non_holder");
                        }
                    }
                }
                let role = EXEC_ROLES[exec].to_string();
                let (ix, used) = if *batch || keys.len() > 1 {
                    let mut ix = tl_ix(
                        tl::accounts::ApproveInstructions { authority, store: p.store, executor: p.execs[exec], store_program: gmsol_store::ID },
                        tl::instruction::ApproveInstructions { role },
                    );
                    let mut uniq: Vec<Pubkey> = vec![];
                    for k in &keys {
                        if !uniq.contains(k) {
                            uniq.push(*k);
                        }
                    }
                    for k in &uniq {
                        ix.accounts.push(AccountMeta { pubkey: *k, is_signer: false, is_writable: true });
                    }
                    (ix, uniq)
                } else {
                    (
                        tl_ix(
                            tl::accounts::ApproveInstruction { authority, store: p.store, executor: p.execs[exec], instruction: keys[0], store_program: gmsol_store::ID },
                            tl::instruction::ApproveInstruction { role },
                        ),
                        vec![keys[0]],
                    )
                };
                let op = if used.len() > 1 || *batch { "approve_batch" } else { "approve" };
                let tx = Tx { ixs: vec![ix], opts: TxOpts::default(), intent: Intent::Approve { keys: used, by: authority }, role: self.actor_label(*by), op, privileged: Some((if op == "approve" { "approve_instruction" } else { "approve_instructions" }, tld_name(exec))) };
                self.send(i, tx, *net, obs);
            }
            Step::Cancel { slots, by, batch, net } => {
                let mut keys: Vec<Pubkey> = vec![];
                for s in slots {
                    let k = Self::buf_key(*s);
                    if !keys.contains(&k) {
                        keys.push(k);
                    }
                }
                let Some(first) = keys.first().and_then(|k| self.m.bufs.get(k)).cloned() else {
                    obs.probe("noop_unknown_buffer");
                    return;
                };
                let authority = self.actor(*by);
                let ix = if *batch || keys.len() > 1 {
                    let mut ix = tl_ix(
                        tl::accounts::CancelInstructions {
                            authority,
                            store: p.store,
                            executor: p.execs[first.exec],
                            rent_receiver: first.rent_receiver,
                            store_program: gmsol_store::ID,
                        },
                        tl::instruction::CancelInstructions {},
                    );
                    for k in &keys {
                        ix.accounts.push(AccountMeta { pubkey: *k, is_signer: false, is_writable: true });
                    }
                    ix
                } else {
                    tl_ix(
                        tl::accounts::CancelInstruction {
                            authority,
                            store: p.store,
                            executor: p.execs[first.exec],
                            rent_receiver: first.rent_receiver,
                            instruction: keys[0],
                            store_program: gmsol_store::ID,
                        },
                        tl::instruction::CancelInstruction {},
                    )
                };
                let op = if *batch || keys.len() > 1 { "cancel_batch" } else { "cancel" };
                let tx = Tx { ixs: vec![ix], opts: TxOpts::default(), intent: Intent::Cancel { keys }, role: self.actor_label(*by), op, privileged: Some((if op == "cancel" { "cancel_instruction" } else { "cancel_instructions" }, "TIMELOCK_ADMIN".to_string())) };
                self.send(i, tx, *net, obs);
            }
            Step::Execute { slot, by, at, twist, net } => {
                let key = Self::buf_key(*slot);
                let Some(b) = self.m.bufs.get(&key).cloned() else {
                    obs.probe("noop_unknown_buffer");
                    return;
                };
                if let (Some(off), Some(eta)) = (at, self.eta(&key)) {
                    self.advance_to(eta.saturating_add(*off as i64), obs);
                }
                if let Some(eta) = self.eta(&key) {
                    if b.live {
                        let n = self.now();
                        obs.probe(if n < eta { "exec_attempt_early" } else if n == eta { "exec_attempt_at_eta" } else { "exec_attempt_late" });
                        if let BState::Approved { by: ap, at, delay_then } = b.state {
                            if n >= eta && !self.m.has(&ap, &tld_name(b.exec)) {
                                obs.probe("exec_attempt_due_but_approver_lost_role");
                            }
                            if n < eta && (n as i128) >= at as i128 + delay_then as i128 {
                                obs.probe("exec_attempt_past_old_delay_before_increased_delay");
                            }
                        }
                    }
                }
                if !b.live {
                    obs.probe("exec_attempt_on_closed");
                }
                let tx = self.build_execute(key, &b, *by, *twist);
                if *twist != Twist::None {
                    obs.fault("byzantine_account_twist");
                }
                self.send(i, tx, *net, obs);
            }
            Step::IncreaseDelay { by, delta, net } => {
                let ix = tl_ix(
                    tl::accounts::IncreaseDelay { authority: self.actor(*by), store: p.store, timelock_config: p.config, store_program: gmsol_store::ID },
                    tl::instruction::IncreaseDelay { delta: *delta },
                );
                if self.m.delay.map_or(false, |d| d + *delta as u64 > u32::MAX as u64) {
                    obs.probe("delay_overflow_attempt");
                }
                let tx = Tx { ixs: vec![ix], opts: TxOpts::default(), intent: Intent::IncreaseDelay { delta: *delta }, role: self.actor_label(*by), op: "increase_delay", privileged: Some(("increase_delay", "TIMELOCK_ADMIN".to_string())) };
                self.send(i, tx, *net, obs);
            }
            Step::Role { via, op, user, role, by } => {
                let u = self.principal(*user);
                let r = ROLE_NAMES[*role as usize % ROLE_NAMES.len()].to_string();
                let authority = self.actor(*by);
                let (ix, effect, name) = match (via, op) {
                    (Via::Bypass, _) => (
                        tl_ix(
                            tl::accounts::RevokeRole { authority, store: p.store, executor: p.execs[0], wallet: p.wallets[0], user: u, store_program: gmsol_store::ID },
                            tl::instruction::RevokeRole { role: r.clone() },
                        ),
                        Effect::Revoke(u, r),
                        "bypass_revoke_role",
                    ),
                    (Via::Direct, RoleOp::Grant) => (
                        store_ix(gmsol_store::accounts::GrantRole { authority, store: p.store }, gmsol_store::instruction::GrantRole { user: u, role: r.clone() }),
                        Effect::Grant(u, r),
                        "store_grant_role",
                    ),
                    (Via::Direct, RoleOp::Revoke) => (
                        store_ix(gmsol_store::accounts::RevokeRole { authority, store: p.store }, gmsol_store::instruction::RevokeRole { user: u, role: r.clone() }),
                        Effect::Revoke(u, r),
                        "store_revoke_role",
                    ),
                    (Via::Direct, RoleOp::Enable) => (
                        store_ix(gmsol_store::accounts::EnableRole { authority, store: p.store }, gmsol_store::instruction::EnableRole { role: r.clone() }),
                        Effect::Enable(r),
                        "store_enable_role",
                    ),
                    (Via::Direct, RoleOp::Disable) => (
                        store_ix(gmsol_store::accounts::DisableRole { authority, store: p.store }, gmsol_store::instruction::DisableRole { role: r.clone() }),
                        Effect::Disable(r),
                        "store_disable_role",
                    ),
                };
                let tx = Tx { ixs: vec![ix], opts: TxOpts::default(), intent: Intent::RoleChange { effect }, role: self.actor_label(*by), op: name, privileged: (*via == Via::Bypass).then(|| ("revoke_role", "__TLD_ADMIN".to_string())) };
                self.deliver(&tx, obs);
            }
            Step::Clock(c) => match c {
                ClockStep::Advance(n) => {
                    let t = self.now().saturating_add(*n as i64);
                    self.advance_to(t, obs);
                }
                ClockStep::ToEta { slot, off } => {
                    if let Some(eta) = self.eta(&Self::buf_key(*slot)) {
                        self.advance_to(eta.saturating_add(*off as i64), obs);
                    }
                }
                ClockStep::JumpHours(h) => {
                    obs.fault("clock_jump");
                    let t = self.now().saturating_add(*h as i64 * 3600);
                    self.advance_to(t, obs);
                }
                ClockStep::Extreme => {
                    if self.now() < EXTREME_TS {
                        obs.fault("clock_extreme_jump");
                        self.advance_to(EXTREME_TS, obs);
                    }
                }
            },
            Step::Restart => {
                obs.fault("cluster_restart");
                self.w.clock.slot += 1;
                self.w.last_restart_slot = self.w.clock.slot;
            }
            Step::UpdateRestart { by } => {
                let ix = store_ix(
                    gmsol_store::accounts::UpdateLastRestartedSlot { authority: self.actor(*by), store: p.store },
                    gmsol_store::instruction::UpdateLastRestartedSlot {},
                );
                let tx = Tx { ixs: vec![ix], opts: TxOpts::default(), intent: Intent::UpdateRestart, role: self.actor_label(*by), op: "update_restart_slot", privileged: None };
                self.deliver(&tx, obs);
            }
            Step::Crash { .. } => obs.fault("party_crash"),
            Step::SetProvider { by, provider } => {
                let ix = tl_ix(
                    tl::accounts::SetExpectedPriceProvider {
                        authority: self.actor(*by),
                        store: p.store,
                        token_map: self.token_map,
                        executor: p.execs[3],
                        wallet: p.wallets[3],
                        token: self.token,
                        store_program: gmsol_store::ID,
                        system_program: system_program::ID,
                    },
                    tl::instruction::SetExpectedPriceProvider { new_expected_price_provider: *provider },
                );
                let tx = Tx {
                    ixs: vec![ix],
                    opts: TxOpts::default(),
                    intent: Intent::SetProvider,
                    role: self.actor_label(*by),
                    op: "bypass_set_expected_price_provider",
                    privileged: Some(("set_expected_price_provider", "__TLD_MARKET_KEEPER".to_string())),
                };
                self.deliver(&tx, obs);
            }
        }
    }
}

impl Scenario for Timelock {
    type Cfg = Cfg;
    type Step = Step;

    fn name(&self) -> &'static str {
        "timelock_lifecycle"
    }

    fn generate(&self, seed: u64, run: u64, tier: Tier, focus: &str) -> (Cfg, Vec<Step>) {
        generate(seed, run, tier, focus)
    }

    fn execute(&self, cfg: &Cfg, steps: &[Step], obs: &mut Obs) {
        let mut sim = Sim::new(cfg);
        for (i, s) in steps.iter().enumerate() {
            obs.set_step(i);
            sim.flush(i, obs);
            if obs.should_stop() {
                return;
            }
            sim.step(i, s, obs);
            if obs.should_stop() {
                return;
            }
            // abstract state fingerprint: number of buffers per state, delay bucket, who is the store authority
            let mut counts = [0u64; 4];
            for b in sim.m.bufs.values() {
                counts[match b.state {
                    BState::Created => 0,
                    BState::Approved { .. } => 1,
                    BState::Executed => 2,
                    BState::Cancelled => 3,
                }] += 1;
            }
            let db = sim.m.delay.map_or(99, |d| 64 - d.leading_zeros() as u64);
            obs.fingerprint(&[counts[0].min(3), counts[1].min(3), counts[2].min(3), counts[3].min(3), db, (sim.m.authority == sim.p.wallets[0]) as u64]);
        }
        // late deliveries after the end of the plan
        obs.set_step(steps.len().saturating_sub(1));
        sim.flush(usize::MAX, obs);
    }

    fn simplify_step(&self, step: &Step) -> Vec<Step> {
        simplify_step(step)
    }

    fn simplify_cfg(&self, cfg: &Cfg) -> Vec<Cfg> {
        simplify_cfg(cfg)
    }

    fn components(&self) -> Components {
        Components {
            real: vec![
                "gmsol_timelock program entrypoint (all instructions)".into(),
                "gmsol_store program entrypoint (roles, config, features, authority transfer, check_role CPI)".into(),
                "anchor-lang account validation".into(),
            ],
            stub: vec!["chainsim runtime (accounts db, loader, CPI, sysvars, system program)".into()],
        }
    }

    fn rule(&self) -> String {
        "one run = one deployment (store + roles + cast of store admin / root / timelock keepers / timelock admins / approvers holding different __TLD_* roles / strangers) and one plan: prologue (initialize executors, authority hand-over, initialize config with a drawn delay) followed by 1–30 interleaved buffer lifecycles (create a buffered store instruction of a drawn shape → approve by holder / non-holder / twice → in-flight events: revoke / disable / re-grant the approver's role (direct, timelock bypass or through another buffered instruction), increase delay incl. overflow attempts, clock moves, cancel, restart → execute at eta−1 / eta / later, repeated, by keepers and strangers) plus noise steps; odd runs additionally inject tx loss / duplication / delay, clock regression / jumps, cluster restart, CPI failures and account substitutions. Distinct = distinct trigram of (actor role, operation, outcome) or distinct abstract state (buffers per state, delay bucket, store authority)".into()
    }
}
