//! Plan types (Cfg, Step) and the plan generator for the timelock scenario.

use serde::{Deserialize, Serialize};
use simcore::{Rng, Tier};

/// Roles for which an executor exists.
pub const EXEC_ROLES: [&str; 4] = ["ADMIN", "CONFIG_KEEPER", "FEATURE_KEEPER", "MARKET_KEEPER"];

/// Role names used by plans. 0..=5 are enabled by the fixture, 6..=11 by `deploy_store`, 12.. are not enabled.
pub const ROLE_NAMES: [&str; 14] = [
    "TIMELOCK_ADMIN",
    "TIMELOCK_KEEPER",
    "__TLD_ADMIN",
    "__TLD_CONFIG_KEEPER",
    "__TLD_FEATURE_KEEPER",
    "__TLD_MARKET_KEEPER",
    "CONFIG_KEEPER",
    "FEATURE_KEEPER",
    "MARKET_KEEPER",
    "ORDER_KEEPER",
    "GT_CONTROLLER",
    "PRICE_KEEPER",
    "XROLE_A",
    "XROLE_B",
];
pub const R_TL_ADMIN: u8 = 0;
pub const R_TL_KEEPER: u8 = 1;
/// Index of the timelocked role `__TLD_<EXEC_ROLES[exec]>`.
pub fn r_tld(exec: usize) -> u8 {
    2 + (exec % 4) as u8
}
pub const N_GRANTABLE: u8 = 12;

pub const AMOUNT_KEYS: [&str; 6] = [
    "request_expiration",
    "oracle_max_age",
    "recent_time_window",
    "adl_prices_max_staleness",
    "claimable_time_window", // rejected by the store
    "no_such_amount",        // invalid key
];
pub const FACTOR_KEYS: [&str; 4] = [
    "oracle_ref_price_deviation",
    "max_builder_fee_factor",
    "order_fee_discount_for_referred_user",
    "no_such_factor",
];
pub const DOMAINS: [&str; 5] = ["deposit", "market-swap", "glv-shift", "liquidation", "bogus-domain"];
pub const ACTIONS: [&str; 4] = ["create", "execute", "default", "cancel"];

#[derive(Clone, Copy, Debug, PartialEq, Eq, Serialize, Deserialize)]
pub enum Kind {
    Human,
    Root,
    Keeper,
    Admin,
    Approver,
    Stranger,
    Other,
}

impl Kind {
    pub fn label(&self) -> &'static str {
        match self {
            Kind::Human => "store_admin",
            Kind::Root => "root",
            Kind::Keeper => "tl_keeper",
            Kind::Admin => "tl_admin",
            Kind::Approver => "approver",
            Kind::Stranger => "stranger",
            Kind::Other => "other_roles",
        }
    }
}

#[derive(Clone, Debug, Serialize, Deserialize)]
pub struct ActorSpec {
    pub kind: Kind,
    /// Indices into `ROLE_NAMES` (< N_GRANTABLE) granted by the fixture.
    pub roles: Vec<u8>,
}

#[derive(Clone, Debug, Serialize, Deserialize)]
pub struct Cfg {
    /// Fault-injecting sub-batch (network faults, clock anomalies, restart, injected CPI failures, account twists).
    pub faults: bool,
    /// Seconds that pass before every step.
    pub tick: u32,
    pub start_ts: i64,
    /// Actor 0 is the human store admin (initial store authority).
    pub actors: Vec<ActorSpec>,
    /// Whether executor wallet `i` (i ≥ 1) is granted its store role by the fixture.
    pub wallet_roles: Vec<bool>,
    /// C19 byzantine twins: every landed privileged timelock transaction is re-run on a fork of the pre-state,
    /// re-signed by an address without any role and by an address holding every other role.
    #[serde(default)]
    pub twins: bool,
}

#[derive(Clone, Copy, Debug, PartialEq, Eq, Serialize, Deserialize)]
pub enum Net {
    Now,
    Lost,
    /// Delivered this many steps later.
    Delay(u8),
    /// Delivered now and again this many steps later.
    Dup(u8),
}

#[derive(Clone, Debug, PartialEq, Eq, Serialize, Deserialize)]
pub enum Target {
    Grant { user: u8, role: u8 },
    Revoke { user: u8, role: u8 },
    Enable { role: u8 },
    Disable { role: u8 },
    Amount { key: u8, value: u64 },
    Factor { key: u8, value: u64, shift: u8 },
    Address { user: u8 },
    OrderFeeDiscount { value: u64, shift: u8 },
    Feature { domain: u8, action: u8, enable: bool },
    TransferAuthority { to: u8 },
    AcceptAuthority,
    HasRole { user: u8, role: u8 },
    /// Junk instruction: program 0 system, 1 store, 2 timelock, 3 unknown key.
    Raw { program: u8, len: u8, fill: u8 },
}

#[derive(Clone, Copy, Debug, PartialEq, Eq, Serialize, Deserialize)]
pub struct Extra {
    /// < 100 principal index; 100..=119 junk keys; 120 store; 121 timelock config; 122 the executor wallet again;
    /// 123 system program; 124 the buffer itself; otherwise junk.
    pub acc: u8,
    pub writable: bool,
}

#[derive(Clone, Copy, Debug, PartialEq, Eq, Serialize, Deserialize)]
pub enum SignerMode {
    /// Exactly the accounts a client would mark (the executor wallet where the instruction needs a signer).
    Natural,
    /// Nothing listed.
    NoneListed,
    /// Natural plus the given extra account (not the wallet) — must be refused.
    ExtraSigner(u8),
    /// Natural plus an out-of-range index.
    OutOfRange(u16),
    /// Natural plus the wallet appended once more as a (signer) extra account.
    WalletExtra,
}

#[derive(Clone, Debug, PartialEq, Eq, Serialize, Deserialize)]
pub struct IxSpec {
    pub target: Target,
    pub extra: Vec<Extra>,
    /// Trailing bytes appended to the instruction data.
    pub pad: u8,
    pub pad_fill: u8,
    pub signers: SignerMode,
    /// Junk remaining accounts passed to `create_instruction_buffer` beyond `num_accounts`.
    pub uncounted: u8,
}

#[derive(Clone, Copy, Debug, PartialEq, Eq, Serialize, Deserialize)]
pub enum Claim {
    /// Role / executor of the buffer.
    Correct,
    /// Claim another executor's role (and pass that executor).
    Exec(u8),
}

#[derive(Clone, Copy, Debug, PartialEq, Eq, Serialize, Deserialize)]
pub enum Twist {
    None,
    WrongExecutor,
    WrongRentReceiver,
    SubstAccount,
    FailCpi(u8),
}

#[derive(Clone, Copy, Debug, PartialEq, Eq, Serialize, Deserialize)]
pub enum Via {
    /// Store instruction signed by the actor (works while the actor is the store authority).
    Direct,
    /// Timelock `revoke_role` bypass (only revoke).
    Bypass,
}

#[derive(Clone, Copy, Debug, PartialEq, Eq, Serialize, Deserialize)]
pub enum RoleOp {
    Grant,
    Revoke,
    Enable,
    Disable,
}

#[derive(Clone, Copy, Debug, PartialEq, Eq, Serialize, Deserialize)]
pub enum ClockStep {
    Advance(u32),
    /// Move the clock (forward only) to `approved_at + delay + off` of the buffer in `slot`.
    ToEta { slot: u8, off: i32 },
    JumpHours(u32),
    Extreme,
}

#[derive(Clone, Debug, PartialEq, Eq, Serialize, Deserialize)]
pub enum Step {
    InitExecutor { by: u8, exec: u8 },
    /// `to`: 0 admin executor wallet, otherwise principal `to - 1`.
    StoreTransfer { by: u8, to: u8 },
    StoreAccept { by: u8 },
    InitConfig { by: u8, delay: u32 },
    Create { slot: u8, by: u8, exec: u8, spec: IxSpec, net: Net },
    Approve { slots: Vec<u8>, by: u8, claim: Claim, batch: bool, net: Net },
    Cancel { slots: Vec<u8>, by: u8, batch: bool, net: Net },
    /// `at`: before sending, move the clock forward to `approved_at + delay + at` (if that is in the future).
    Execute { slot: u8, by: u8, at: Option<i32>, twist: Twist, net: Net },
    IncreaseDelay { by: u8, delta: u32, net: Net },
    Role { via: Via, op: RoleOp, user: u8, role: u8, by: u8 },
    Clock(ClockStep),
    Restart,
    UpdateRestart { by: u8 },
    /// An actor abandons the protocol of this buffer (recorded only).
    Crash { slot: u8 },
    /// Timelock bypass `set_expected_price_provider` for the fixture token (needs `__TLD_MARKET_KEEPER`).
    SetProvider { by: u8, provider: u8 },
}

/// Who is who in a generated cast (indices into `Cfg::actors`).
pub struct Cast {
    pub human: u8,
    pub root: u8,
    pub keepers: Vec<u8>,
    pub admins: Vec<u8>,
    /// (actor, executors whose timelocked role it holds)
    pub approvers: Vec<(u8, Vec<u8>)>,
    pub strangers: Vec<u8>,
    pub other: u8,
    pub n_actors: u8,
}

impl Cast {
    pub fn holders(&self, exec: u8) -> Vec<u8> {
        let mut v = vec![];
        if exec == 0 {
            v.push(self.root);
        }
        for (a, ex) in &self.approvers {
            if ex.contains(&exec) {
                v.push(*a);
            }
        }
        v
    }
    pub fn non_holders(&self, exec: u8) -> Vec<u8> {
        let h = self.holders(exec);
        (0..self.n_actors).filter(|a| !h.contains(a)).collect()
    }
    /// Principal index of executor wallet `exec`.
    pub fn wallet(&self, exec: u8) -> u8 {
        self.n_actors + exec
    }
    pub fn tld_admin_holders(&self) -> Vec<u8> {
        self.holders(0)
    }
}

pub fn gen_cast(r: &mut Rng) -> (Vec<ActorSpec>, Cast) {
    let mut actors = vec![];
    let mut cast = Cast {
        human: 0,
        root: 1,
        keepers: vec![],
        admins: vec![],
        approvers: vec![],
        strangers: vec![],
        other: 0,
        n_actors: 0,
    };
    actors.push(ActorSpec { kind: Kind::Human, roles: vec![] });
    actors.push(ActorSpec { kind: Kind::Root, roles: vec![R_TL_ADMIN, R_TL_KEEPER, r_tld(0)] });
    for _ in 0..r.range(1, 2) {
        cast.keepers.push(actors.len() as u8);
        actors.push(ActorSpec { kind: Kind::Keeper, roles: vec![R_TL_KEEPER] });
    }
    for _ in 0..r.range(1, 2) {
        cast.admins.push(actors.len() as u8);
        actors.push(ActorSpec { kind: Kind::Admin, roles: vec![R_TL_ADMIN] });
    }
    let n_appr = r.range(2, 4);
    for i in 0..n_appr {
        let mut ex: Vec<u8> = vec![];
        // first approver covers ADMIN + one more, the others random non-empty subsets
        if i == 0 {
            ex.push(0);
            ex.push(r.range(1, 3) as u8);
        } else {
            for e in 0..4u8 {
                if r.chance(2, 5) {
                    ex.push(e);
                }
            }
            if ex.is_empty() {
                ex.push(r.range(1, 3) as u8);
            }
        }
        let roles = ex.iter().map(|e| r_tld(*e as usize)).collect();
        cast.approvers.push((actors.len() as u8, ex));
        actors.push(ActorSpec { kind: Kind::Approver, roles });
    }
    // make sure every executor has at least one holder
    for e in 1..4u8 {
        if cast.holders(e).is_empty() {
            let k = r.below(cast.approvers.len() as u64) as usize;
            cast.approvers[k].1.push(e);
            let a = cast.approvers[k].0 as usize;
            actors[a].roles.push(r_tld(e as usize));
        }
    }
    for _ in 0..r.range(1, 2) {
        cast.strangers.push(actors.len() as u8);
        actors.push(ActorSpec { kind: Kind::Stranger, roles: vec![] });
    }
    cast.other = actors.len() as u8;
    actors.push(ActorSpec { kind: Kind::Other, roles: vec![6, 7, 8, 9, 10, 11] });
    cast.n_actors = actors.len() as u8;
    (actors, cast)
}

struct Gen<'a> {
    r: Rng,
    cast: &'a Cast,
    faults: bool,
    /// The human admin gets the store authority back early in this run.
    handback: bool,
    next_slot: u8,
}

impl Gen<'_> {
    fn net(&mut self, heavy: bool) -> Net {
        if !self.faults {
            return Net::Now;
        }
        let p = if heavy { 30 } else { 8 };
        if !self.r.chance(p, 100) {
            return Net::Now;
        }
        match self.r.below(10) {
            0..=1 => Net::Lost,
            2..=5 => Net::Dup(self.r.range(1, 12) as u8),
            _ => Net::Delay(self.r.range(1, 12) as u8),
        }
    }

    fn keeper(&mut self) -> u8 {
        if self.r.chance(1, 5) {
            self.cast.root
        } else {
            *self.r.pick(&self.cast.keepers)
        }
    }

    fn tl_admin(&mut self) -> u8 {
        if self.r.chance(1, 4) {
            self.cast.root
        } else {
            *self.r.pick(&self.cast.admins)
        }
    }

    fn anyone(&mut self) -> u8 {
        self.r.below(self.cast.n_actors as u64) as u8
    }

    fn interesting_user(&mut self) -> u8 {
        // approvers and keepers are the users whose roles matter
        match self.r.below(10) {
            0..=5 => self.r.pick(&self.cast.approvers).0,
            6 => *self.r.pick(&self.cast.keepers),
            7 => self.cast.root,
            8 => *self.r.pick(&self.cast.strangers),
            _ => self.r.below(self.cast.n_actors as u64 + 4) as u8,
        }
    }

    fn factor(&mut self) -> (u64, u8) {
        (self.r.log_u64(u64::MAX), self.r.range(0, 64) as u8)
    }

    fn spec(&mut self, exec: u8, exec_keeper: u8) -> IxSpec {
        let r = &mut self.r;
        let roll = r.below(100);
        let target = match exec {
            0 => match roll {
                0..=29 => {
                    let user = self.interesting_user();
                    let role = if self.r.chance(3, 4) { self.r.range(0, 5) as u8 } else { self.r.range(0, 13) as u8 };
                    Target::Grant { user, role }
                }
                30..=54 => {
                    // prefer a role the user holds
                    let (a, ex) = self.r.pick(&self.cast.approvers).clone();
                    if self.r.chance(3, 4) {
                        let e = *self.r.pick(&ex);
                        Target::Revoke { user: a, role: r_tld(e as usize) }
                    } else {
                        let user = self.interesting_user();
                        Target::Revoke { user, role: self.r.range(0, 13) as u8 }
                    }
                }
                55..=62 => Target::Enable { role: self.r.range(2, 13) as u8 },
                63..=69 => Target::Disable { role: if self.r.chance(2, 3) { self.r.range(2, 5) as u8 } else { self.r.range(0, 13) as u8 } },
                70..=74 => Target::TransferAuthority { to: self.r.below(self.cast.n_actors as u64 + 4) as u8 },
                75..=77 => Target::AcceptAuthority,
                78..=93 => Target::HasRole { user: self.interesting_user(), role: self.r.range(0, 13) as u8 },
                _ => Target::Raw { program: self.r.below(4) as u8, len: self.r.range(0, 40) as u8, fill: self.r.u64() as u8 },
            },
            1 => match roll {
                0..=44 => Target::Amount { key: if self.r.chance(9, 10) { self.r.below(4) as u8 } else { self.r.range(4, 5) as u8 }, value: self.r.log_u64(u64::MAX) },
                45..=69 => {
                    let (value, shift) = self.factor();
                    Target::Factor { key: if self.r.chance(9, 10) { self.r.below(3) as u8 } else { 3 }, value, shift }
                }
                70..=84 => Target::Address { user: self.anyone() },
                85..=93 => Target::HasRole { user: self.interesting_user(), role: self.r.range(0, 13) as u8 },
                _ => Target::Raw { program: self.r.below(4) as u8, len: self.r.range(0, 40) as u8, fill: self.r.u64() as u8 },
            },
            2 => match roll {
                0..=84 => Target::Feature {
                    domain: if self.r.chance(9, 10) { self.r.below(4) as u8 } else { 4 },
                    action: self.r.below(4) as u8,
                    enable: self.r.bool(),
                },
                85..=94 => Target::HasRole { user: self.interesting_user(), role: self.r.range(0, 13) as u8 },
                _ => Target::Raw { program: self.r.below(4) as u8, len: self.r.range(0, 40) as u8, fill: self.r.u64() as u8 },
            },
            _ => match roll {
                0..=79 => {
                    let (value, shift) = self.factor();
                    Target::OrderFeeDiscount { value, shift }
                }
                80..=94 => Target::HasRole { user: self.interesting_user(), role: self.r.range(0, 13) as u8 },
                _ => Target::Raw { program: self.r.below(4) as u8, len: self.r.range(0, 40) as u8, fill: self.r.u64() as u8 },
            },
        };
        let r = &mut self.r;
        let n_extra = match r.below(10) {
            0..=4 => 0,
            5..=7 => r.range(1, 3),
            _ => r.range(4, 10),
        };
        let mut extra = vec![];
        for _ in 0..n_extra {
            let acc = match r.below(10) {
                0..=3 => r.below(self.cast.n_actors as u64 + 4) as u8,
                4..=7 => r.range(100, 119) as u8,
                _ => r.range(120, 124) as u8,
            };
            extra.push(Extra { acc, writable: r.chance(1, 3) });
        }
        let pad = match r.below(10) {
            0..=4 => 0,
            5..=7 => r.range(1, 40) as u8,
            _ => r.range(41, 150) as u8,
        };
        let signers = if r.chance(4, 5) {
            SignerMode::Natural
        } else {
            match r.below(20) {
                0..=4 => SignerMode::NoneListed,
                5..=11 => {
                    // the account that will sign the execute transaction anyway
                    extra.push(Extra { acc: exec_keeper, writable: r.chance(1, 4) });
                    SignerMode::ExtraSigner(extra.len() as u8 - 1)
                }
                12..=15 => SignerMode::OutOfRange(r.range(12, 70) as u16),
                _ => SignerMode::WalletExtra,
            }
        };
        let uncounted = if r.chance(1, 12) { r.range(1, 3) as u8 } else { 0 };
        IxSpec { target, extra, pad, pad_fill: r.u64() as u8, signers, uncounted }
    }

    fn exec_off(&mut self) -> Option<i32> {
        let r = &mut self.r;
        match r.below(100) {
            0..=19 => Some(-1),
            20..=49 => Some(0),
            50..=59 => Some(1),
            60..=69 => Some(-(r.log_u64(100_000) as i32)),
            70..=89 => Some(r.log_u64(100_000) as i32),
            _ => None,
        }
    }

    fn twist(&mut self) -> Twist {
        if !self.faults || !self.r.chance(1, 6) {
            return Twist::None;
        }
        match self.r.below(5) {
            0 => Twist::WrongExecutor,
            1 => Twist::WrongRentReceiver,
            2 => Twist::SubstAccount,
            3 => Twist::FailCpi(1),
            _ => Twist::FailCpi(2),
        }
    }

    fn delta(&mut self) -> u32 {
        let r = &mut self.r;
        match r.below(20) {
            0 => 0,
            1 => u32::MAX,
            2 => u32::MAX - r.range(0, 100_000) as u32,
            3..=5 => r.log_u64(10_000_000) as u32,
            _ => r.range(1, 120) as u32,
        }
    }

    fn slot(&mut self) -> u8 {
        let s = self.next_slot;
        self.next_slot = self.next_slot.wrapping_add(1) % 48;
        s
    }

    /// A small helper lifecycle: buffered role change under the ADMIN executor approved by root.
    fn mini_admin(&mut self, target: Target) -> Vec<Step> {
        let slot = self.slot();
        let k = self.keeper();
        let spec = IxSpec { target, extra: vec![], pad: 0, pad_fill: 0, signers: SignerMode::Natural, uncounted: 0 };
        let by = *self.r.pick(&self.cast.tld_admin_holders());
        vec![
            Step::Create { slot, by: k, exec: 0, spec, net: Net::Now },
            Step::Approve { slots: vec![slot], by, claim: Claim::Correct, batch: false, net: Net::Now },
            Step::Execute { slot, by: k, at: Some(0), twist: Twist::None, net: Net::Now },
        ]
    }

    /// Steps that take `role` away from / give it back to `user` with the means available in this run.
    fn role_change(&mut self, op: RoleOp, user: u8, role: u8) -> Vec<Step> {
        let bypassable = role > 2 && op == RoleOp::Revoke;
        if self.handback {
            vec![Step::Role { via: Via::Direct, op, user, role, by: self.cast.human }]
        } else if bypassable && self.r.chance(2, 3) {
            let by = *self.r.pick(&self.cast.tld_admin_holders());
            vec![Step::Role { via: Via::Bypass, op, user, role, by }]
        } else {
            let t = match op {
                RoleOp::Grant => Target::Grant { user, role },
                RoleOp::Revoke => Target::Revoke { user, role },
                RoleOp::Enable => Target::Enable { role },
                RoleOp::Disable => Target::Disable { role },
            };
            self.mini_admin(t)
        }
    }

    fn thread(&mut self) -> Vec<Step> {
        let slot = self.slot();
        let exec: u8 = if self.handback {
            *self.r.weighted(&[(15, 0u8), (40, 1), (25, 2), (20, 3)])
        } else {
            *self.r.weighted(&[(40, 0u8), (30, 1), (15, 2), (15, 3)])
        };
        let keeper = self.keeper();
        let creator = if self.r.chance(1, 15) { self.anyone() } else { keeper };
        let mut spec = self.spec(exec, keeper);
        if self.handback && exec == 0 && self.r.chance(2, 3) {
            // the admin wallet is no longer the store authority: keep something that can still succeed
            spec.target = if self.r.chance(1, 3) {
                Target::AcceptAuthority
            } else {
                Target::HasRole { user: self.interesting_user(), role: self.r.range(0, 13) as u8 }
            };
        }
        let mut s = vec![];
        if matches!(spec.target, Target::AcceptAuthority) && self.handback {
            s.push(Step::StoreTransfer { by: self.cast.human, to: 0 });
        }
        let net = self.net(false);
        s.push(Step::Create { slot, by: creator, exec, spec: spec.clone(), net });
        if self.r.chance(1, 14) {
            let mut spec2 = self.spec(exec, keeper);
            if self.r.bool() {
                spec2 = spec;
            }
            s.push(Step::Create { slot, by: keeper, exec, spec: spec2, net: Net::Now });
        }
        if self.r.chance(1, 8) {
            s.push(Step::Execute { slot, by: keeper, at: None, twist: Twist::None, net: Net::Now });
        }
        if self.faults && self.r.chance(1, 25) {
            s.push(Step::Crash { slot });
            return s;
        }
        // approval
        let holders = self.cast.holders(exec);
        let non_holders = self.cast.non_holders(exec);
        let mut approver = *self.r.pick(&holders);
        let rightful = self.r.chance(4, 5);
        let net = self.net(true);
        if rightful {
            let batch = self.r.chance(1, 4);
            s.push(Step::Approve { slots: vec![slot], by: approver, claim: Claim::Correct, batch, net });
        } else {
            let wrong = *self.r.pick(&non_holders);
            let claim = if self.r.chance(1, 2) { Claim::Correct } else { Claim::Exec(self.r.below(4) as u8) };
            s.push(Step::Approve { slots: vec![slot], by: wrong, claim, batch: self.r.chance(1, 4), net });
            if self.r.chance(2, 3) {
                s.push(Step::Approve { slots: vec![slot], by: approver, claim: Claim::Correct, batch: false, net: Net::Now });
            } else if self.r.chance(1, 2) {
                approver = wrong;
            }
        }
        if self.r.chance(1, 5) {
            // second approval attempt (same or another holder), possibly much later
            let by = *self.r.pick(&holders);
            let net = self.net(true);
            s.push(Step::Approve { slots: vec![slot], by, claim: Claim::Correct, batch: self.r.chance(1, 4), net });
        }
        if self.faults && self.r.chance(1, 25) {
            s.push(Step::Crash { slot });
            return s;
        }
        // in-flight events between approval and execution
        let tld = r_tld(exec as usize);
        let mut revoked = false;
        let n_ev = *self.r.weighted(&[(35, 0u8), (40, 1), (18, 2), (7, 3)]);
        for _ in 0..n_ev {
            match self.r.below(100) {
                0..=34 => {
                    let op = if self.r.chance(5, 6) { RoleOp::Revoke } else { RoleOp::Disable };
                    s.extend(self.role_change(op, approver, tld));
                    revoked = true;
                }
                35..=54 => {
                    let by = if self.r.chance(9, 10) { self.tl_admin() } else { self.anyone() };
                    let net = self.net(false);
                    s.push(Step::IncreaseDelay { by, delta: self.delta(), net });
                }
                55..=69 => s.push(Step::Clock(ClockStep::Advance(self.r.log_u64(100_000) as u32))),
                70..=79 => {
                    if self.faults {
                        let c = match self.r.below(10) {
                            0..=3 => ClockStep::Advance(0),
                            4..=8 => ClockStep::JumpHours(self.r.range(1, 24 * 400) as u32),
                            _ => ClockStep::Extreme,
                        };
                        s.push(Step::Clock(c));
                    } else {
                        s.push(Step::Clock(ClockStep::ToEta { slot, off: -(self.r.range(1, 30) as i32) }));
                    }
                }
                80..=89 => {
                    let by = if self.r.chance(3, 4) { self.tl_admin() } else { self.anyone() };
                    let net = self.net(true);
                    s.push(Step::Cancel { slots: vec![slot], by, batch: self.r.chance(1, 4), net });
                }
                _ => {
                    if self.faults && self.r.chance(1, 2) {
                        s.push(Step::Restart);
                        if self.r.chance(2, 3) {
                            let by = if self.r.chance(3, 4) { self.cast.human } else { self.anyone() };
                            s.push(Step::UpdateRestart { by });
                        }
                    } else {
                        // an unrelated role change
                        let user = self.interesting_user();
                        let role = self.r.range(0, 11) as u8;
                        let op = if self.r.bool() { RoleOp::Grant } else { RoleOp::Revoke };
                        s.extend(self.role_change(op, user, role));
                    }
                }
            }
        }
        // execution attempts
        let n_att = *self.r.weighted(&[(50, 1u8), (35, 2), (15, 3)]);
        for i in 0..n_att {
            let by = if self.r.chance(9, 10) { keeper } else { self.anyone() };
            let at = self.exec_off();
            let twist = self.twist();
            let net = self.net(true);
            s.push(Step::Execute { slot, by, at, twist, net });
            if revoked && i + 1 < n_att && self.r.chance(1, 3) {
                s.extend(self.role_change(RoleOp::Grant, approver, tld));
                revoked = false;
            }
        }
        // aftermath
        if self.r.chance(1, 3) {
            let at = if self.r.bool() { Some(self.r.range(0, 50) as i32) } else { None };
            s.push(Step::Execute { slot, by: keeper, at, twist: Twist::None, net: Net::Now });
        }
        if self.r.chance(1, 8) {
            s.push(Step::Cancel { slots: vec![slot], by: self.tl_admin(), batch: false, net: Net::Now });
        }
        if self.r.chance(1, 10) {
            let by = *self.r.pick(&holders);
            s.push(Step::Approve { slots: vec![slot], by, claim: Claim::Correct, batch: false, net: Net::Now });
            if self.r.chance(1, 2) {
                s.push(Step::Execute { slot, by: keeper, at: Some(0), twist: Twist::None, net: Net::Now });
            }
        }
        s
    }

    fn noise(&mut self, max_slot: u8) -> Step {
        let slot = self.r.below(max_slot.max(1) as u64) as u8;
        match self.r.below(100) {
            0..=14 => Step::Clock(ClockStep::Advance(self.r.log_u64(5_000) as u32)),
            15..=24 => Step::IncreaseDelay { by: self.tl_admin(), delta: self.delta(), net: self.net(false) },
            25..=39 => Step::Execute { slot, by: if self.r.chance(2, 3) { self.keeper() } else { self.anyone() }, at: None, twist: self.twist(), net: self.net(false) },
            40..=54 => {
                let n = self.r.range(1, 3);
                let slots = (0..n).map(|_| self.r.below(max_slot.max(1) as u64) as u8).collect();
                Step::Approve { slots, by: self.anyone(), claim: if self.r.chance(3, 4) { Claim::Correct } else { Claim::Exec(self.r.below(4) as u8) }, batch: self.r.bool(), net: self.net(false) }
            }
            55..=64 => {
                let n = self.r.range(1, 3);
                let slots = (0..n).map(|_| self.r.below(max_slot.max(1) as u64) as u8).collect();
                Step::Cancel { slots, by: if self.r.chance(1, 2) { self.tl_admin() } else { self.anyone() }, batch: self.r.bool(), net: self.net(false) }
            }
            65..=84 => {
                let op = *self.r.pick(&[RoleOp::Grant, RoleOp::Revoke, RoleOp::Revoke, RoleOp::Enable, RoleOp::Disable]);
                let via = if op == RoleOp::Revoke && self.r.chance(1, 2) { Via::Bypass } else { Via::Direct };
                let by = match via {
                    Via::Direct => if self.r.chance(4, 5) { self.cast.human } else { self.anyone() },
                    Via::Bypass => if self.r.chance(4, 5) { *self.r.pick(&self.cast.tld_admin_holders()) } else { self.anyone() },
                };
                Step::Role { via, op, user: self.interesting_user(), role: self.r.range(0, 13) as u8, by }
            }
            85..=89 => Step::Clock(ClockStep::ToEta { slot, off: self.r.range_i64(-3, 3) as i32 }),
            90..=93 => Step::StoreAccept { by: if self.r.chance(2, 3) { self.cast.human } else { self.anyone() } },
            94..=95 => Step::StoreTransfer { by: self.cast.human, to: self.r.below(3) as u8 },
            96..=98 => {
                let by = if self.r.chance(3, 4) { *self.r.pick(&self.cast.holders(3)) } else { self.anyone() };
                Step::SetProvider { by, provider: self.r.below(5) as u8 }
            }
            _ => Step::InitExecutor { by: self.anyone(), exec: self.r.below(4) as u8 },
        }
    }
}

pub fn generate(seed: u64, run: u64, tier: Tier, focus: &str) -> (Cfg, Vec<Step>) {
    let mut rc = Rng::derive(seed, run, "cfg");
    let faults = run % 2 == 1;
    let (actors, cast) = gen_cast(&mut rc);
    let tick = *rc.weighted(&[(25, 0u32), (35, 1), (15, 2), (15, 13), (10, 400)]);
    let wallet_roles = (0..4).map(|_| rc.chance(14, 15)).collect();
    let twins = focus == "C19" || run % 12 == 5;
    let cfg = Cfg { faults, tick, start_ts: 1_700_000_000 + rc.range(0, 1_000_000) as i64, actors, wallet_roles, twins };
    let init_delay = *rc.weighted(&[(15, 0u32), (10, 1), (20, 7), (20, 60), (20, 3600), (10, 86_400), (5, 30 * 86_400)]);
    let init_delay = if init_delay == 7 { rc.range(2, 10) as u32 } else { init_delay };
    let handback = rc.chance(35, 100);

    let mut g = Gen { r: Rng::derive(seed, run, "plan"), cast: &cast, faults, handback, next_slot: 0 };
    let mut plan: Vec<Step> = vec![];

    // prologue
    let mut pro: Vec<Step> = vec![];
    let mut execs: Vec<u8> = vec![0, 1, 2, 3];
    g.r.shuffle(&mut execs);
    if g.r.chance(1, 10) {
        execs.pop();
    }
    for e in &execs {
        pro.push(Step::InitExecutor { by: g.anyone(), exec: *e });
    }
    if g.r.chance(1, 10) {
        pro.push(Step::InitExecutor { by: g.anyone(), exec: g.r.below(4) as u8 });
    }
    if !execs.contains(&0) {
        pro.push(Step::InitExecutor { by: g.anyone(), exec: 0 });
    }
    if g.r.chance(1, 8) {
        // config before the authority hand-over: must fail, retried below
        pro.push(Step::InitConfig { by: cast.root, delay: init_delay });
    }
    pro.push(Step::StoreTransfer { by: cast.human, to: 0 });
    if g.r.chance(1, 6) {
        let by = *g.r.pick(&cast.non_holders(0));
        pro.push(Step::InitConfig { by, delay: g.r.range(0, 5) as u32 });
    }
    pro.push(Step::InitConfig { by: cast.root, delay: init_delay });
    if g.r.chance(1, 8) {
        pro.push(Step::InitConfig { by: cast.root, delay: g.r.range(0, 5) as u32 });
    }

    // lifecycles
    let nt = match tier {
        Tier::Quick => *g.r.weighted(&[(15, 1u32), (25, 2), (25, 3), (15, 4), (6, 5), (5, 6), (5, 9), (4, 14)]),
        Tier::Thorough => *g.r.weighted(&[(14, 1u32), (24, 2), (24, 3), (15, 4), (6, 5), (5, 6), (5, 9), (4, 14), (2, 22), (1, 30)]),
    };
    let mut threads: Vec<Vec<Step>> = vec![];
    let mut hb: Vec<Step> = vec![];
    if handback {
        // hand the store authority back to the human admin through the timelock itself
        hb = g.mini_admin(Target::TransferAuthority { to: cast.human });
        hb.push(Step::StoreAccept { by: cast.human });
    }
    for _ in 0..nt {
        threads.push(g.thread());
    }
    let max_slot = g.next_slot.max(1);
    let interleave_prologue = faults && g.r.chance(1, 8);
    if interleave_prologue {
        let mut p = pro;
        p.extend(hb);
        threads.push(p);
    } else {
        plan.extend(pro);
        if g.r.chance(5, 6) {
            plan.extend(hb);
        } else {
            threads.push(hb);
        }
    }
    // random merge preserving per-thread order
    let mut idx: Vec<usize> = vec![0; threads.len()];
    loop {
        let remaining: Vec<(u32, usize)> = threads
            .iter()
            .enumerate()
            .filter(|(i, t)| idx[*i] < t.len())
            .map(|(i, t)| ((t.len() - idx[i]) as u32, i))
            .collect();
        if remaining.is_empty() {
            break;
        }
        let t = *g.r.weighted(&remaining);
        plan.push(threads[t][idx[t]].clone());
        idx[t] += 1;
        if g.r.chance(1, 9) {
            let n = g.noise(max_slot);
            plan.push(n);
        }
    }
    (cfg, plan)
}

pub fn simplify_step(step: &Step) -> Vec<Step> {
    let mut out = vec![];
    match step {
        Step::Create { slot, by, exec, spec, net } => {
            if *net != Net::Now {
                out.push(Step::Create { slot: *slot, by: *by, exec: *exec, spec: spec.clone(), net: Net::Now });
            }
            if !spec.extra.is_empty() && !matches!(spec.signers, SignerMode::ExtraSigner(_)) {
                let mut s = spec.clone();
                s.extra.clear();
                out.push(Step::Create { slot: *slot, by: *by, exec: *exec, spec: s, net: *net });
            }
            if spec.pad != 0 || spec.uncounted != 0 {
                let mut s = spec.clone();
                s.pad = 0;
                s.uncounted = 0;
                out.push(Step::Create { slot: *slot, by: *by, exec: *exec, spec: s, net: *net });
            }
            if spec.signers != SignerMode::Natural && !matches!(spec.signers, SignerMode::ExtraSigner(_)) {
                let mut s = spec.clone();
                s.signers = SignerMode::Natural;
                out.push(Step::Create { slot: *slot, by: *by, exec: *exec, spec: s, net: *net });
            }
        }
        Step::Approve { slots, by, claim, batch, net } => {
            if *net != Net::Now {
                out.push(Step::Approve { slots: slots.clone(), by: *by, claim: *claim, batch: *batch, net: Net::Now });
            }
            if *batch && slots.len() == 1 {
                out.push(Step::Approve { slots: slots.clone(), by: *by, claim: *claim, batch: false, net: *net });
            }
            if slots.len() > 1 {
                out.push(Step::Approve { slots: vec![slots[0]], by: *by, claim: *claim, batch: *batch, net: *net });
            }
        }
        Step::Cancel { slots, by, batch, net } => {
            if *net != Net::Now {
                out.push(Step::Cancel { slots: slots.clone(), by: *by, batch: *batch, net: Net::Now });
            }
            if slots.len() > 1 {
                out.push(Step::Cancel { slots: vec![slots[0]], by: *by, batch: *batch, net: *net });
            }
        }
        Step::Execute { slot, by, at, twist, net } => {
            if *net != Net::Now {
                out.push(Step::Execute { slot: *slot, by: *by, at: *at, twist: *twist, net: Net::Now });
            }
            if *twist != Twist::None {
                out.push(Step::Execute { slot: *slot, by: *by, at: *at, twist: Twist::None, net: *net });
            }
            if let Some(a) = at {
                if *a != 0 && *a != -1 {
                    out.push(Step::Execute { slot: *slot, by: *by, at: Some(if *a < 0 { -1 } else { 0 }), twist: *twist, net: *net });
                }
            }
        }
        Step::IncreaseDelay { by, delta, net } => {
            if *net != Net::Now {
                out.push(Step::IncreaseDelay { by: *by, delta: *delta, net: Net::Now });
            }
            if *delta > 1 && *delta < u32::MAX / 2 {
                out.push(Step::IncreaseDelay { by: *by, delta: 1, net: *net });
            }
        }
        Step::Clock(ClockStep::Advance(n)) if *n > 1 => out.push(Step::Clock(ClockStep::Advance(n / 2))),
        Step::Clock(ClockStep::JumpHours(n)) if *n > 1 => out.push(Step::Clock(ClockStep::JumpHours(n / 2))),
        _ => {}
    }
    out
}

pub fn simplify_cfg(cfg: &Cfg) -> Vec<Cfg> {
    let mut out = vec![];
    if cfg.tick > 1 {
        let mut c = cfg.clone();
        c.tick = 1;
        out.push(c);
    }
    if cfg.tick == 1 {
        let mut c = cfg.clone();
        c.tick = 0;
        out.push(c);
    }
    if cfg.faults {
        let mut c = cfg.clone();
        c.faults = false;
        out.push(c);
    }
    if cfg.twins {
        let mut c = cfg.clone();
        c.twins = false;
        out.push(c);
    }
    out
}
