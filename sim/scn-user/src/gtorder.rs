//! C30 (second mint path) — GT minted by real order executions on a GT-minting-enabled market: `get_mint_amount`
//! floor / remainder bookkeeping, plus the same supply / cost-schedule / rank invariants, interleaved with
//! `mint_gt_reward` and referral rewards minted at order close.

use std::sync::OnceLock;

use chainsim::deploy::{deploy_full, init_thread, read_pod, store_ix, Dep, DeployOpts};
use chainsim::ex::{self, DepositArgs, OrderArgs, OrderKind};
use chainsim::rt::{TxOpts, World};
use chainsim::smoke::price_report;
use gmsol_store::states::user::UserHeader;
use gmsol_store::states::Store;
use num_traits::ToPrimitive;
use serde::{Deserialize, Serialize};
use simcore::big::bu;
use simcore::rng::hash_str;
use simcore::{Components, Obs, Rng, Scenario, Tier};
use solana_program::{pubkey::Pubkey, system_program};

use crate::common::{code_pda, user_pda, UNIT};

const P: &str = "C30";
const N_USERS: usize = 4;
const USD: u128 = UNIT; // 1 USD in value units (10^20)

#[derive(Clone, Debug, Serialize, Deserialize)]
pub struct Cfg {
    #[serde(with = "crate::common::u128_str")]
    pub cost0: u128,
    #[serde(with = "crate::common::u128_str")]
    pub grow_factor: u128,
    pub grow_step: u64,
    pub ranks: Vec<u64>,
    /// referral reward factor per rank (len = ranks + 1, sorted) — empty = none configured
    #[serde(with = "crate::common::vec_u128_str")]
    pub reward_factors: Vec<u128>,
    /// user #2 is referred by user #1
    pub referral: bool,
}

#[derive(Clone, Copy, Debug, Serialize, Deserialize, PartialEq, Eq)]
pub enum Step {
    Increase { user: u8, size_usd: u32, long: bool },
    Decrease { user: u8, size_usd: u32, long: bool },
    /// `mint_gt_reward`; `to_step` = bring total minted exactly to the next grow-step boundary + off
    Mint { user: u8, amount: u64, to_step: Option<i8> },
    Toggle { enable: bool },
    Advance { secs: u16 },
    Price { sol_cents: u32 },
}

static BASE: OnceLock<(World, Dep)> = OnceLock::new();

fn post_prices(w: &mut World, d: &Dep, sol_cents: u32) -> bool {
    let e16 = 10i128.pow(16);
    let now = w.clock.unix_timestamp;
    let a = w.process(ex::update_feed_ix(d, 0, &price_report(d, 0, now, sol_cents as i128 * e16, 2), false));
    let b = w.process(ex::update_feed_ix(d, 1, &price_report(d, 1, now, 100 * e16, 1), false));
    a.ok && b.ok
}

fn base() -> (World, Dep) {
    let (w, d) = BASE.get_or_init(|| {
        let mut w = World::new(crate::common::START_TS, 1000);
        let mut opts = DeployOpts::default();
        opts.n_users = N_USERS + 1; // the last one is the liquidity provider
        let d = deploy_full(&mut w, &opts);
        assert!(post_prices(&mut w, &d, 15_000), "fixture prices");
        let lp = d.users[N_USERS];
        let mut nonce = [0u8; 32];
        nonce[0] = 0xfe;
        let (ixs, dep) = ex::create_deposit_tx(
            &d,
            &DepositArgs {
                owner: lp,
                market: 0,
                nonce,
                long_amount: 800_000_000_000,
                short_amount: 120_000_000_000,
                min_market_token: 0,
                execution_lamports: 5_000_000,
                initial_long_token: None,
                initial_short_token: None,
                long_path: vec![],
                short_path: vec![],
            },
        );
        assert!(w.process_tx(&ixs, &TxOpts::default()).ok, "fixture create deposit");
        let ix = ex::execute_deposit_ix(&w, &d, &dep, true, 5000).expect("deposit ix");
        let out = w.process(ix);
        assert!(out.ok, "fixture execute deposit: {}", out.class());
        let ix = ex::close_deposit_ix(&w, &d, &dep, &lp).expect("close deposit");
        assert!(w.process(ix).ok, "fixture close deposit");
        for u in 0..N_USERS {
            assert!(w.process(ex::prepare_user_ix(&d, &d.users[u])).ok, "fixture prepare user");
        }
        (w, d)
    });
    init_thread();
    (w.clone(), d.clone())
}

struct CostModel {
    total: u64,
    k: u64,
    cost: u128,
}

impl CostModel {
    fn mint(&mut self, cfg: &Cfg, amount: u64) -> bool {
        if amount == 0 {
            return true;
        }
        let Some(total) = self.total.checked_add(amount) else { return false };
        let k = total / cfg.grow_step;
        let mut c = self.cost;
        for _ in self.k..k {
            match (bu(c) * bu(cfg.grow_factor) / bu(UNIT)).to_u128() {
                Some(x) => c = x,
                None => return false,
            }
        }
        self.total = total;
        self.k = k;
        self.cost = c;
        true
    }
}

#[derive(Clone, Copy, Debug, PartialEq, Eq)]
struct UserGt {
    amount: u64,
    rank: u8,
    paid: u128,
    minted_value: u128,
}

fn read_user(w: &World, d: &Dep, u: usize) -> Option<UserGt> {
    read_pod::<UserHeader>(w, &user_pda(&d.store, &d.users[u])).map(|h| UserGt {
        amount: h.gt().amount(),
        rank: h.gt().rank(),
        paid: h.gt().paid_fee_value(),
        minted_value: h.gt().minted_fee_value(),
    })
}

pub struct GtOrderSim;

struct Run<'a> {
    w: World,
    d: Dep,
    cfg: &'a Cfg,
    cm: CostModel,
    bal: [u64; N_USERS],
    minting: bool,
    sol_cents: u32,
    nonce: u32,
    gc: Pubkey,
}

impl<'a> Run<'a> {
    fn invariants(&self, obs: &mut Obs, after: &str) -> bool {
        let Some(store) = read_pod::<Store>(&self.w, &self.d.store) else { return false };
        let gt = store.gt();
        let mut sum = 0u128;
        for u in 0..N_USERS {
            let Some(g) = read_user(&self.w, &self.d, u) else { return false };
            sum += g.amount as u128;
            let want = self.cfg.ranks.iter().take(15).filter(|t| **t <= g.amount).count() as u8;
            obs.checked("rank_is_threshold_count");
            if g.rank != want {
                obs.violation(
                    P,
                    "rank_is_threshold_count",
                    format!("zero_threshold={},touched={},after={after}", self.cfg.ranks.first() == Some(&0), g.amount != 0 || self.bal[u] != 0),
                    format!("user #{u}: balance {}, rank {}, thresholds {:?} => expected {want}", g.amount, g.rank, self.cfg.ranks),
                );
            }
            obs.checked("state_vs_model");
            if g.amount != self.bal[u] {
                obs.violation(P, "state_vs_model", format!("after={after},what=balance,path=order"), format!("user #{u}: balance {} model {}", g.amount, self.bal[u]));
            }
        }
        obs.checked("supply_eq_sum_balances");
        if gt.supply() as u128 != sum {
            obs.violation(P, "supply_eq_sum_balances", format!("after={after}"), format!("supply {} != sum of balances {sum}", gt.supply()));
        }
        obs.checked("cost_schedule");
        if gt.total_minted() != self.cm.total || gt.grow_steps() != self.cm.k || gt.minting_cost() != self.cm.cost || gt.grow_steps() != gt.total_minted() / self.cfg.grow_step {
            obs.violation(
                P,
                "cost_schedule",
                format!("after={after}"),
                format!(
                    "stored total {} steps {} cost {}; expected total {} steps {} cost {} (cost0 {} grow {} step {})",
                    gt.total_minted(),
                    gt.grow_steps(),
                    gt.minting_cost(),
                    self.cm.total,
                    self.cm.k,
                    self.cm.cost,
                    self.cfg.cost0,
                    self.cfg.grow_factor,
                    self.cfg.grow_step
                ),
            );
        }
        true
    }

    /// create + execute + close one order; returns false when the run should stop
    fn order(&mut self, user: usize, inc: bool, size_usd: u32, long: bool, obs: &mut Obs) -> bool {
        let kind = if inc { OrderKind::MarketIncrease } else { OrderKind::MarketDecrease };
        let d = self.d.clone();
        let owner = d.users[user];
        self.nonce += 1;
        let mut nonce = [0u8; 32];
        nonce[..4].copy_from_slice(&self.nonce.to_le_bytes());
        let size = size_usd as u128 * USD;
        // 5x leverage, collateral in the long token (SOL, 9 decimals)
        let collateral = if inc { (size_usd as u128 * 100 * 1_000_000_000 / 5 / self.sol_cents.max(1) as u128) as u64 } else { 0 };
        let (ixs, order, _pos) = ex::create_order_tx(
            &d,
            &OrderArgs {
                owner,
                market: 0,
                nonce,
                kind,
                is_long: long,
                is_collateral_long: true,
                collateral_delta: collateral,
                size_delta: size,
                execution_lamports: 5_000_000,
                min_output: None,
                trigger_price: None,
                acceptable_price: None,
                valid_from_ts: None,
                initial_collateral_token: None,
                final_output_token: None,
                swap_path: vec![],
                swap_type: None,
            },
        );
        let name = if inc { "increase" } else { "decrease" };
        // the program loops once per crossed grow step: skip orders that could cross thousands of steps
        // (fee value bounded by 0.2 % of the size plus what is still unminted)
        if let (Some(g), Some(s)) = (read_user(&self.w, &d, user), read_pod::<Store>(&self.w, &d.store)) {
            let cost = s.gt().minting_cost();
            let worst = bu(g.paid.saturating_sub(g.minted_value)) + bu(size) / bu(500);
            if cost == 0 || worst / bu(cost) / bu(self.cfg.grow_step as u128) > bu(2000) {
                obs.probe("order_skipped_too_many_grow_steps");
                return true;
            }
        }
        let out = self.w.process_tx(&ixs, &TxOpts::default());
        obs.outcome("user", &format!("create_{name}"), &out.class());
        if !out.ok {
            return true;
        }
        if !post_prices(&mut self.w, &d, self.sol_cents) {
            obs.outcome("keeper", "update_feeds", "failed");
            return true;
        }
        let pre = read_user(&self.w, &d, user).expect("user");
        let cost_before = read_pod::<Store>(&self.w, &d.store).map(|s| s.gt().minting_cost()).unwrap_or(0);
        let Some(ixs) = ex::execute_order_tx(&self.w, &d, &order, true, 5000, 0) else { return true };
        let out = self.w.process_tx(&ixs, &TxOpts::default());
        let class = out.class();
        obs.outcome("keeper", &format!("execute_{name}"), &class);
        let post = read_user(&self.w, &d, user).expect("user");
        let minting = self.minting;
        let mut gt_reward: u64 = 0;
        obs.event(|| format!("{name} user #{user} ${size_usd} long={long} -> {class}; gt {pre:?} -> {post:?} cost {cost_before} minting={minting}"));
        if out.ok {
            // --- the statement's last sentence, on what the program recorded
            if !self.minting {
                obs.checked("no_mint_when_disabled");
                if post != pre {
                    obs.violation(P, "no_mint_when_disabled", String::new(), format!("GT minting disabled on the market but user GT state changed {pre:?} -> {post:?}"));
                }
            } else if post.paid > pre.paid {
                obs.probe("order_paid_fee");
                let value = post.paid - pre.minted_value; // USD value to mint for
                if cost_before != 0 {
                    let units = bu(value) / bu(cost_before);
                    let rem = bu(value) % bu(cost_before);
                    let d_bal = post.amount as i128 - pre.amount as i128;
                    obs.checked("mint_whole_units_floor");
                    if units.to_i128() != Some(d_bal) {
                        obs.violation(
                            P,
                            "mint_whole_units_floor",
                            format!("got_more={}", units.to_i128().map(|u| d_bal > u).unwrap_or(false)),
                            format!("value {value} at cost {cost_before}: expected floor = {units} units, balance changed by {d_bal}"),
                        );
                    }
                    obs.checked("remainder_stays_unminted");
                    let unminted = bu(post.paid) - bu(post.minted_value.min(post.paid));
                    if post.minted_value > post.paid || unminted != rem {
                        obs.violation(
                            P,
                            "remainder_stays_unminted",
                            format!("over={}", post.minted_value > post.paid),
                            format!(
                                "paid {} minted-for {} => unminted remainder {unminted}; expected {rem} (value {value}, cost {cost_before}, units {units})",
                                post.paid, post.minted_value
                            ),
                        );
                    }
                    if units.to_u64().map(|u| u > 0).unwrap_or(false) {
                        obs.probe("order_minted_gt");
                    }
                    if rem != bu(0) {
                        obs.probe("order_left_remainder");
                    }
                    if let Some(u) = units.to_u64() {
                        if !self.cm.mint(self.cfg, u) {
                            obs.probe("model_overflow");
                            return false;
                        }
                        self.bal[user] += u;
                        gt_reward = u;
                    }
                }
            } else {
                obs.probe("order_without_fee");
            }
        }
        if obs.should_stop() {
            return false;
        }
        // close (mints the referral reward for the referrer, if any)
        let referred = self.cfg.referral && user == 2;
        let reward_pre = read_user(&self.w, &d, 1).expect("user 1");
        if let Some(ix) = ex::close_order_ix(&self.w, &d, &order, &owner) {
            let out = self.w.process(ix);
            obs.outcome("user", "close_order", &out.class());
            if out.ok && referred && gt_reward > 0 {
                let factor = self.cfg.reward_factors.get(reward_pre.rank as usize).copied().unwrap_or(0);
                let reward = (bu(gt_reward as u128) * bu(factor) / bu(UNIT)).to_u64().unwrap_or(u64::MAX);
                if reward > 0 {
                    obs.probe("referral_reward_minted");
                    if !self.cm.mint(self.cfg, reward) {
                        return false;
                    }
                    self.bal[1] += reward;
                }
            }
        }
        true
    }
}

impl Scenario for GtOrderSim {
    type Cfg = Cfg;
    type Step = Step;

    fn name(&self) -> &'static str {
        "gtordersim"
    }

    fn generate(&self, seed: u64, run: u64, tier: Tier, _focus: &str) -> (Cfg, Vec<Step>) {
        let mut rng = Rng::derive(seed, run, "gtorder.cfg");
        // typical order fees: 5-7 bps of $100..$20000 = $0.05..$14 => cost chosen so that 0..~1000 units are minted
        let cost0 = match rng.below(8) {
            0 => UNIT / 20,
            1 => UNIT,
            2 => 7 * UNIT / 3 + 1,
            3 => rng.range128(1, 1000),
            _ => rng.log_u128(20 * UNIT),
        }
        .max(1);
        let grow_step = match rng.below(6) {
            0 => 1,
            1 => rng.range(2, 10),
            2 => 100_000,
            _ => rng.range(5, 500),
        };
        // keep a $20000 order (fee value <= ~$40) below ~1500 crossed grow steps
        let cost0 = cost0.max(40 * UNIT / (1500 * grow_step as u128));
        let grow_factor = match rng.below(6) {
            0 => UNIT,
            1 => UNIT + UNIT / 100,
            2 => UNIT - UNIT / 50,
            3 => UNIT + UNIT / 2,
            _ => UNIT + rng.log_u128(UNIT / 4),
        };
        let n_ranks = rng.range(0, 8) as usize;
        let mut ranks = vec![];
        let mut cur = rng.range(1, 40);
        for _ in 0..n_ranks {
            ranks.push(cur);
            cur += rng.range(1, 200);
        }
        let mut reward_factors: Vec<u128> = (0..=n_ranks).map(|_| rng.range128(0, UNIT)).collect();
        reward_factors.sort();
        let cfg = Cfg { cost0, grow_factor, grow_step, ranks, reward_factors, referral: rng.chance(2, 3) };
        let mut rng = Rng::derive(seed, run, "gtorder.plan");
        let n = match tier {
            Tier::Quick => rng.range(3, 20),
            Tier::Thorough => rng.range(3, 45),
        };
        let mut steps = vec![];
        for _ in 0..n {
            let user = rng.below(N_USERS as u64) as u8;
            steps.push(match rng.below(20) {
                0..=8 => Step::Increase { user: if rng.chance(1, 3) { 2 } else { user }, size_usd: rng.log_u64(20_000).max(10) as u32, long: rng.chance(3, 4) },
                9..=12 => Step::Decrease { user: if rng.chance(1, 3) { 2 } else { user }, size_usd: rng.log_u64(20_000).max(10) as u32, long: rng.chance(3, 4) },
                13..=15 => {
                    let to_step = if rng.bool() { Some(rng.range_i64(-1, 1) as i8) } else { None };
                    Step::Mint { user, amount: rng.log_u64(2000), to_step }
                }
                16 => Step::Toggle { enable: rng.chance(2, 3) },
                17..=18 => Step::Advance { secs: rng.range(0, 90) as u16 },
                _ => Step::Price { sol_cents: rng.range(12_000, 18_000) as u32 },
            });
        }
        (cfg, steps)
    }

    fn execute(&self, cfg: &Cfg, steps: &[Step], obs: &mut Obs) {
        if cfg.grow_step == 0 || cfg.cost0 == 0 {
            return;
        }
        let (mut w, d) = base();
        let gc = d.keeper;
        let ranks: Vec<u64> = cfg.ranks.iter().copied().take(15).collect();
        let out = w.process(store_ix(
            gmsol_store::accounts::InitializeGt { authority: d.keeper, store: d.store, system_program: system_program::ID },
            gmsol_store::instruction::InitializeGt { decimals: 6, initial_minting_cost: cfg.cost0, grow_factor: cfg.grow_factor, grow_step: cfg.grow_step, ranks: ranks.clone() },
        ));
        if !out.ok {
            obs.outcome("keeper", "initialize_gt", &out.class());
            return;
        }
        let out = w.process(store_ix(
            gmsol_store::accounts::ToggleGTMinting { authority: d.keeper, store: d.store, market: d.markets[0].market },
            gmsol_store::instruction::ToggleGtMinting { enable: true },
        ));
        assert!(out.ok, "toggle_gt_minting: {}", out.class());
        if cfg.reward_factors.len() == ranks.len() + 1 && cfg.reward_factors.windows(2).all(|x| x[0] <= x[1]) {
            let out = w.process(store_ix(
                gmsol_store::accounts::ConfigureGt { authority: d.keeper, store: d.store },
                gmsol_store::instruction::GtSetReferralRewardFactors { factors: cfg.reward_factors.clone() },
            ));
            assert!(out.ok, "reward factors: {}", out.class());
        }
        let has_rewards = cfg.reward_factors.len() == ranks.len() + 1;
        let mut cfg_eff = cfg.clone();
        if !has_rewards {
            cfg_eff.reward_factors = vec![0; ranks.len() + 1];
        }
        if cfg.referral {
            let code = *b"\0\0\0\0REF1";
            let cp = code_pda(&d.store, &code);
            let out = w.process(store_ix(
                gmsol_store::accounts::InitializeReferralCode {
                    owner: d.users[1],
                    store: d.store,
                    referral_code: cp,
                    user: user_pda(&d.store, &d.users[1]),
                    system_program: system_program::ID,
                },
                gmsol_store::instruction::InitializeReferralCode { code },
            ));
            assert!(out.ok, "init code: {}", out.class());
            let out = w.process(store_ix(
                gmsol_store::accounts::SetReferrer {
                    owner: d.users[2],
                    store: d.store,
                    user: user_pda(&d.store, &d.users[2]),
                    referral_code: cp,
                    referrer_user: user_pda(&d.store, &d.users[1]),
                },
                gmsol_store::instruction::SetReferrer { code },
            ));
            assert!(out.ok, "set referrer: {}", out.class());
        }
        let mut run = Run { w, d, cfg: &cfg_eff, cm: CostModel { total: 0, k: 0, cost: cfg.cost0 }, bal: [0; N_USERS], minting: true, sol_cents: 15_000, nonce: 0, gc };
        for (i, st) in steps.iter().enumerate() {
            obs.set_step(i);
            match *st {
                Step::Increase { user, size_usd, long } => {
                    if !run.order(user as usize % N_USERS, true, size_usd, long, obs) {
                        return;
                    }
                }
                Step::Decrease { user, size_usd, long } => {
                    if !run.order(user as usize % N_USERS, false, size_usd, long, obs) {
                        return;
                    }
                }
                Step::Mint { user, amount, to_step } => {
                    let u = user as usize % N_USERS;
                    let amt = match to_step {
                        Some(off) => {
                            let t = (cfg.grow_step - run.cm.total % cfg.grow_step) as i128 + off as i128;
                            if t > 0 {
                                t as u64
                            } else {
                                1
                            }
                        }
                        None => amount,
                    };
                    if (run.cm.total.saturating_add(amt)) / cfg.grow_step - run.cm.k > 3000 {
                        continue;
                    }
                    let out = run.w.process(store_ix(
                        gmsol_store::accounts::MintGtReward {
                            authority: run.gc,
                            store: run.d.store,
                            user: user_pda(&run.d.store, &run.d.users[u]),
                            event_authority: run.d.event_authority,
                            program: gmsol_store::ID,
                        },
                        gmsol_store::instruction::MintGtReward { amount: amt },
                    ));
                    obs.outcome("keeper", "mint_gt_reward", &out.class());
                    obs.event(|| format!("mint_gt_reward user #{u} {amt} -> {}", out.class()));
                    if out.ok {
                        if !run.cm.mint(cfg, amt) {
                            return;
                        }
                        run.bal[u] += amt;
                    }
                }
                Step::Toggle { enable } => {
                    let out = run.w.process(store_ix(
                        gmsol_store::accounts::ToggleGTMinting { authority: run.d.keeper, store: run.d.store, market: run.d.markets[0].market },
                        gmsol_store::instruction::ToggleGtMinting { enable },
                    ));
                    obs.outcome("keeper", "toggle_gt_minting", &out.class());
                    if out.ok {
                        run.minting = enable;
                    }
                }
                Step::Advance { secs } => {
                    run.w.advance(1 + secs as u64 / 2, secs as i64);
                    obs.sim_seconds += secs as u64;
                }
                Step::Price { sol_cents } => run.sol_cents = sol_cents.clamp(5_000, 50_000),
            }
            if !run.invariants(obs, match st {
                Step::Increase { .. } => "increase",
                Step::Decrease { .. } => "decrease",
                Step::Mint { .. } => "mint_gt_reward",
                _ => "other",
            }) || obs.should_stop()
            {
                return;
            }
            obs.event_hash(&[run.cm.total, run.cm.k, run.cm.cost as u64, run.bal[0], run.bal[1], run.bal[2], run.bal[3]]);
            obs.fingerprint(&[hash_str("gtorder"), run.cm.k.min(50), run.minting as u64, (run.cm.total > 0) as u64]);
        }
    }

    fn simplify_step(&self, s: &Step) -> Vec<Step> {
        match *s {
            Step::Increase { user, size_usd, long } if size_usd > 20 => vec![Step::Increase { user, size_usd: size_usd / 2, long }],
            Step::Decrease { user, size_usd, long } if size_usd > 20 => vec![Step::Decrease { user, size_usd: size_usd / 2, long }],
            Step::Mint { user, amount, to_step: Some(_) } => vec![Step::Mint { user, amount, to_step: None }],
            Step::Mint { user, amount, to_step: None } if amount > 1 => vec![Step::Mint { user, amount: amount / 2, to_step: None }],
            _ => vec![],
        }
    }

    fn simplify_cfg(&self, cfg: &Cfg) -> Vec<Cfg> {
        let mut out = vec![];
        if cfg.referral {
            out.push(Cfg { referral: false, ..cfg.clone() });
        }
        if cfg.grow_factor != UNIT {
            out.push(Cfg { grow_factor: UNIT, ..cfg.clone() });
        }
        out
    }

    fn components(&self) -> Components {
        Components {
            real: vec![
                "gmsol_store program entrypoint: create_order_v2, execute_increase_or_swap_order_v2, execute_decrease_order_v2, close_order_v2 (GT minted in Order::unchecked_process_gt via GtState::get_mint_amount / mint_to; referral reward at close), toggle_gt_minting, mint_gt_reward, initialize_gt, gt_set_referral_reward_factors, price feed updates through the mock Chainlink verifier".into(),
                "SPL Token / ATA programs".into(),
            ],
            stub: vec![
                "chainsim runtime (accounts db, loader, CPI, sysvars, system program); chainsim deployment fixture and exchange client".into(),
                "reference: floor(value / cost) and value mod cost in BigUint on the fee value recorded by the program (paid_fee_value - minted_fee_value); iterated floor cost schedule".into(),
            ],
        }
    }

    fn rule(&self) -> String {
        "one run = a GT configuration (cost0 1 .. $20, grow step 1 .. 100000, grow factor around 1, 0-8 rank thresholds, referral reward table, optional referrer) on a fully deployed SOL/USDC market with liquidity and GT minting enabled, and 3-45 steps: market increase / decrease orders of $10 .. $20000 by 4 users (created, executed by the keeper with fresh prices, closed), mint_gt_reward (random or exactly to a grow-step boundary -1/0/+1), toggling GT minting on the market, clock advances and price moves".into()
    }
}
