//! Scenario crate `scn-user` (chain-level simulation on the chainsim runtime): referrals (C33), order-fee discount
//! (C31), GT balances / cost / ranks / exchange windows (C30).

pub mod common;
pub mod discount;
pub mod gt;
pub mod referral;

use simcore::{CheckSpec, Part};

pub const PROPERTIES: &[&str] = &["C33"];

pub fn registry(property: &str) -> Option<CheckSpec> {
    match property {
        "C33" => Some(CheckSpec {
            property: "C33",
            level: "exploration",
            parts: vec![Part::new(referral::ReferralSim, 50_000, 900_000)],
            assumptions: vec![
                "a single store (the multi-store feature is off); wallets are funded; only user <-> user and code <-> code account substitutions are tried as byzantine twins".into(),
            ],
        }),
        _ => None,
    }
}
