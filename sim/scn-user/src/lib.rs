//! Scenario crate `scn-user` (chain-level simulation on the chainsim runtime): referrals (C33), order-fee discount
//! (C31), GT balances / cost / ranks / exchange windows (C30).

pub mod common;
pub mod discount;
pub mod gt;
pub mod gtorder;
pub mod referral;

use simcore::{CheckSpec, Part};

pub const PROPERTIES: &[&str] = &["C30", "C31", "C33"];

pub fn registry(property: &str) -> Option<CheckSpec> {
    match property {
        "C33" => Some(CheckSpec {
            property: "C33",
            level: "exploration",
            parts: vec![Part::new(referral::ReferralSim, 80_000, 1_200_000)],
            assumptions: vec![
                "a single store (the multi-store feature is off); wallets are funded; only user <-> user and code <-> code account substitutions are tried as byzantine twins".into(),
            ],
        }),
        "C31" => Some(CheckSpec {
            property: "C31",
            level: "exploration",
            parts: vec![Part::new(discount::DiscountSim, 160_000, 2_500_000)],
            assumptions: vec![
                "the maximum rank is fixed by initialize_gt (it cannot be changed afterwards), so each run explores one rank table size".into(),
                "a referred-user factor above 100 % is outside the statement's domain (\"factors up to 100 %\"): the setters accept it and the computation then fails; this is counted by a probe, not reported".into(),
            ],
        }),
        "C30" => Some(CheckSpec {
            property: "C30",
            level: "exploration",
            parts: vec![Part::new(gt::GtSim, 24_000, 350_000), Part::new(gtorder::GtOrderSim, 3_000, 40_000)],
            assumptions: vec![
                "exchange windows other than 86400 s are forged into the store account because gt_set_exchange_time_window is compiled out without the test-only feature".into(),
                "a single mint crosses at most 3000 grow steps (the program loops once per step)".into(),
                "the cluster clock never steps backwards (Solana clamps Clock.unix_timestamp to be non-decreasing); stalls, jumps and extreme jumps are injected".into(),
                "order path (gtordersim): the USD amount minted for is the fee value recorded by the program (paid_fee_value - minted_fee_value); cost0 is bounded below so that one order crosses < ~2000 grow steps".into(),
            ],
        }),
        _ => None,
    }
}
