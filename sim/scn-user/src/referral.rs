//! C33 — referral relationships and referral-code ownership under all interleavings, stale / duplicated / lost
//! transactions and byzantine twins.

use std::collections::BTreeMap;

use chainsim::deploy::{read_pod, store_ix, Dep};
use chainsim::rt::{TxOpts, World};
use gmsol_store::states::user::{ReferralCodeV2, UserHeader};
use serde::{Deserialize, Serialize};
use simcore::rng::hash_str;
use simcore::{Components, Obs, Rng, Scenario, Tier};
use solana_program::{instruction::Instruction, pubkey::Pubkey, system_program};

use crate::common::{base_world, code_pda, prepare_user_ix, user_pda};

const P: &str = "C33";

#[derive(Clone, Debug, Serialize, Deserialize)]
pub struct Cfg {
    /// 2..=6 wallets (a wallet becomes a "user" once `prepare_user` landed).
    pub n_users: u8,
    /// Size of the code universe; code #0 is the all-zero (invalid) code.
    pub n_codes: u8,
    /// Fault-injecting sub-batch (delays, duplicates, losses, byzantine substitutions) or fault-free.
    pub faults: bool,
}

/// Every account slot of every instruction is an explicit wallet / code index, so a byzantine twin is just an
/// incoherent choice. `None` = "what an honest client would look up on chain when it builds the transaction".
#[derive(Clone, Copy, Debug, Serialize, Deserialize, PartialEq, Eq)]
pub enum Op {
    Prepare { signer: u8, user_acc: u8 },
    InitCode { signer: u8, user_acc: u8, code: u8, code_acc: u8 },
    SetReferrer { signer: u8, user_acc: u8, code: u8, code_acc: u8, referrer_acc: Option<u8> },
    Transfer { signer: u8, user_acc: u8, code_acc: Option<u8>, receiver: u8 },
    Cancel { signer: u8, user_acc: u8, code_acc: Option<u8> },
    Accept { signer: u8, user_acc: Option<u8>, code_acc: u8, receiver_acc: u8 },
}

#[derive(Clone, Copy, Debug, Serialize, Deserialize, PartialEq, Eq)]
pub struct Step {
    pub op: Op,
    /// The transaction is built now and delivered after this many further steps.
    pub delay: u8,
    /// Deliver a second copy this many steps after the first delivery.
    pub dup: Option<u8>,
    /// Built but never delivered.
    pub lost: bool,
}

/// A built transaction: all indices concrete.
#[derive(Clone, Copy, Debug, PartialEq, Eq)]
enum Built {
    Prepare { signer: usize, user_acc: usize },
    InitCode { signer: usize, user_acc: usize, code: usize, code_acc: usize },
    SetReferrer { signer: usize, user_acc: usize, code: usize, code_acc: usize, referrer_acc: usize },
    Transfer { signer: usize, user_acc: usize, code_acc: usize, receiver: usize },
    Cancel { signer: usize, user_acc: usize, code_acc: usize },
    Accept { signer: usize, user_acc: usize, code_acc: usize, receiver_acc: usize },
}

impl Built {
    fn name(&self) -> &'static str {
        match self {
            Built::Prepare { .. } => "prepare_user",
            Built::InitCode { .. } => "initialize_referral_code",
            Built::SetReferrer { .. } => "set_referrer",
            Built::Transfer { .. } => "transfer_referral_code",
            Built::Cancel { .. } => "cancel_referral_code_transfer",
            Built::Accept { .. } => "accept_referral_code",
        }
    }
    fn signer(&self) -> usize {
        match *self {
            Built::Prepare { signer, .. }
            | Built::InitCode { signer, .. }
            | Built::SetReferrer { signer, .. }
            | Built::Transfer { signer, .. }
            | Built::Cancel { signer, .. }
            | Built::Accept { signer, .. } => signer,
        }
    }
    /// Does the signer act on somebody else's account (byzantine twin)?
    fn byzantine(&self) -> bool {
        match *self {
            Built::Prepare { signer, user_acc }
            | Built::InitCode { signer, user_acc, .. }
            | Built::SetReferrer { signer, user_acc, .. }
            | Built::Transfer { signer, user_acc, .. }
            | Built::Cancel { signer, user_acc, .. } => signer != user_acc,
            Built::Accept { signer, receiver_acc, .. } => signer != receiver_acc,
        }
    }
}

/// Reference model: the statement's objects only.
#[derive(Clone, Debug, PartialEq, Eq)]
struct Model {
    prepared: Vec<bool>,
    /// write-once
    referrer: Vec<Option<usize>>,
    /// the code a user currently holds
    ucode: Vec<Option<usize>>,
    /// code -> (owner, proposed next owner)
    codes: Vec<Option<(usize, usize)>>,
}

impl Model {
    fn new(n_users: usize, n_codes: usize) -> Self {
        Model { prepared: vec![false; n_users], referrer: vec![None; n_users], ucode: vec![None; n_users], codes: vec![None; n_codes] }
    }

    /// `Ok` = the transaction is well-formed and allowed; `Err(reason)` = it must be rejected.
    fn judge(&self, b: &Built) -> Result<(), &'static str> {
        match *b {
            Built::Prepare { signer, user_acc } => {
                if signer != user_acc {
                    return Err("foreign_user_account");
                }
                Ok(())
            }
            Built::InitCode { signer, user_acc, code, code_acc } => {
                if signer != user_acc {
                    return Err("foreign_user_account");
                }
                if !self.prepared[signer] {
                    return Err("user_not_prepared");
                }
                if code == 0 {
                    return Err("zero_code");
                }
                if code != code_acc {
                    return Err("code_account_mismatch");
                }
                if self.codes[code].is_some() {
                    return Err("code_exists");
                }
                if self.ucode[signer].is_some() {
                    return Err("user_has_code");
                }
                Ok(())
            }
            Built::SetReferrer { signer, user_acc, code, code_acc, referrer_acc } => {
                if signer != user_acc {
                    return Err("foreign_user_account");
                }
                if !self.prepared[signer] {
                    return Err("user_not_prepared");
                }
                if code != code_acc {
                    return Err("code_account_mismatch");
                }
                let (owner, _) = match self.codes[code] {
                    Some(c) => c,
                    None => return Err("no_such_code"),
                };
                if referrer_acc != owner {
                    return Err("referrer_is_not_code_owner");
                }
                if owner == signer {
                    return Err("self_referral");
                }
                if self.referrer[signer].is_some() {
                    return Err("referrer_already_set");
                }
                if self.referrer[owner] == Some(signer) {
                    return Err("mutual_referral");
                }
                Ok(())
            }
            Built::Transfer { signer, user_acc, code_acc, receiver } => {
                if signer != user_acc {
                    return Err("foreign_user_account");
                }
                let (owner, next) = match self.codes[code_acc] {
                    Some(c) => c,
                    None => return Err("no_such_code"),
                };
                if owner != signer {
                    return Err("not_code_owner");
                }
                if receiver == signer {
                    return Err("transfer_to_self");
                }
                if !self.prepared[receiver] {
                    return Err("receiver_not_prepared");
                }
                if self.ucode[receiver].is_some() {
                    return Err("receiver_has_code");
                }
                if next == receiver {
                    return Err("already_proposed");
                }
                Ok(())
            }
            Built::Cancel { signer, user_acc, code_acc } => {
                if signer != user_acc {
                    return Err("foreign_user_account");
                }
                let (owner, next) = match self.codes[code_acc] {
                    Some(c) => c,
                    None => return Err("no_such_code"),
                };
                if owner != signer {
                    return Err("not_code_owner");
                }
                if next == owner {
                    return Err("nothing_to_cancel");
                }
                Ok(())
            }
            Built::Accept { signer, user_acc, code_acc, receiver_acc } => {
                if signer != receiver_acc {
                    return Err("foreign_receiver_account");
                }
                let (owner, next) = match self.codes[code_acc] {
                    Some(c) => c,
                    None => return Err("no_such_code"),
                };
                if user_acc != owner {
                    return Err("user_is_not_code_owner");
                }
                if next != signer {
                    return Err("not_proposed_owner");
                }
                if signer == owner {
                    return Err("accept_own_code");
                }
                if !self.prepared[signer] {
                    return Err("user_not_prepared");
                }
                if self.ucode[signer].is_some() {
                    return Err("receiver_has_code");
                }
                Ok(())
            }
        }
    }

    fn apply(&mut self, b: &Built) {
        match *b {
            Built::Prepare { signer, .. } => self.prepared[signer] = true,
            Built::InitCode { signer, code, .. } => {
                self.codes[code] = Some((signer, signer));
                self.ucode[signer] = Some(code);
            }
            Built::SetReferrer { signer, code, .. } => {
                self.referrer[signer] = Some(self.codes[code].unwrap().0);
            }
            Built::Transfer { code_acc, receiver, .. } => {
                self.codes[code_acc].as_mut().unwrap().1 = receiver;
            }
            Built::Cancel { signer, code_acc, .. } => {
                self.codes[code_acc].as_mut().unwrap().1 = signer;
            }
            Built::Accept { signer, code_acc, .. } => {
                let (old, _) = self.codes[code_acc].unwrap();
                self.codes[code_acc] = Some((signer, signer));
                self.ucode[old] = None;
                self.ucode[signer] = Some(code_acc);
            }
        }
    }
}

/// Decoded on-chain representation (through the program's own zero-copy structs).
#[derive(Clone, Debug, PartialEq, Eq)]
struct Snap {
    /// per wallet: `None` = no user account; else (initialized, referrer wallet key, held code account)
    users: Vec<Option<(bool, Option<Pubkey>, Option<Pubkey>)>>,
    /// per code: `None` = no account; else (code bytes, owner wallet, next owner wallet)
    codes: Vec<Option<([u8; 8], Pubkey, Pubkey)>>,
}

struct Keys {
    store: Pubkey,
    wallets: Vec<Pubkey>,
    user_pdas: Vec<Pubkey>,
    code_bytes: Vec<[u8; 8]>,
    code_pdas: Vec<Pubkey>,
    wallet_idx: BTreeMap<Pubkey, usize>,
    code_idx: BTreeMap<Pubkey, usize>,
}

fn code_bytes(i: usize) -> [u8; 8] {
    if i == 0 {
        [0; 8]
    } else {
        // leading zero padding like bs58-decoded short codes
        [0, 0, 0, b'r', b'e', b'f', 0x30 + (i as u8 / 10), 0x30 + (i as u8 % 10)]
    }
}

fn snapshot(w: &World, k: &Keys) -> Snap {
    let users = k
        .user_pdas
        .iter()
        .map(|p| {
            read_pod::<UserHeader>(w, p).map(|u| (u.is_initialized(), u.referral().referrer().copied(), u.referral().code().copied()))
        })
        .collect();
    let codes = k
        .code_pdas
        .iter()
        .map(|p| read_pod::<ReferralCodeV2>(w, p).map(|c| (c.code, c.owner, *c.next_owner())))
        .collect();
    Snap { users, codes }
}

fn model_snap(m: &Model, k: &Keys) -> Snap {
    let users = (0..m.prepared.len())
        .map(|u| {
            if m.prepared[u] {
                Some((true, m.referrer[u].map(|r| k.wallets[r]), m.ucode[u].map(|c| k.code_pdas[c])))
            } else {
                None
            }
        })
        .collect();
    let codes = (0..m.codes.len()).map(|c| m.codes[c].map(|(o, n)| (k.code_bytes[c], k.wallets[o], k.wallets[n]))).collect();
    Snap { users, codes }
}

/// Rebuild the model from the chain (only used to continue a run after a *known* finding).
fn model_from_snap(s: &Snap, k: &Keys) -> Model {
    let mut m = Model::new(k.wallets.len(), k.code_pdas.len());
    for (u, us) in s.users.iter().enumerate() {
        if let Some((_, r, c)) = us {
            m.prepared[u] = true;
            m.referrer[u] = r.and_then(|r| k.wallet_idx.get(&r).copied());
            m.ucode[u] = c.and_then(|c| k.code_idx.get(&c).copied());
        }
    }
    for (c, cs) in s.codes.iter().enumerate() {
        if let Some((_, o, n)) = cs {
            if let (Some(o), Some(n)) = (k.wallet_idx.get(o), k.wallet_idx.get(n)) {
                m.codes[c] = Some((*o, *n));
            }
        }
    }
    m
}

fn build_ix(b: &Built, k: &Keys) -> Instruction {
    match *b {
        Built::Prepare { signer, user_acc } => prepare_user_ix(&k.store, &k.wallets[signer], &k.user_pdas[user_acc]),
        Built::InitCode { signer, user_acc, code, code_acc } => store_ix(
            gmsol_store::accounts::InitializeReferralCode {
                owner: k.wallets[signer],
                store: k.store,
                referral_code: k.code_pdas[code_acc],
                user: k.user_pdas[user_acc],
                system_program: system_program::ID,
            },
            gmsol_store::instruction::InitializeReferralCode { code: k.code_bytes[code] },
        ),
        Built::SetReferrer { signer, user_acc, code, code_acc, referrer_acc } => store_ix(
            gmsol_store::accounts::SetReferrer {
                owner: k.wallets[signer],
                store: k.store,
                user: k.user_pdas[user_acc],
                referral_code: k.code_pdas[code_acc],
                referrer_user: k.user_pdas[referrer_acc],
            },
            gmsol_store::instruction::SetReferrer { code: k.code_bytes[code] },
        ),
        Built::Transfer { signer, user_acc, code_acc, receiver } => store_ix(
            gmsol_store::accounts::TransferReferralCode {
                owner: k.wallets[signer],
                store: k.store,
                user: k.user_pdas[user_acc],
                referral_code: k.code_pdas[code_acc],
                receiver_user: k.user_pdas[receiver],
            },
            gmsol_store::instruction::TransferReferralCode {},
        ),
        Built::Cancel { signer, user_acc, code_acc } => store_ix(
            gmsol_store::accounts::CancelReferralCodeTransfer {
                owner: k.wallets[signer],
                store: k.store,
                user: k.user_pdas[user_acc],
                referral_code: k.code_pdas[code_acc],
            },
            gmsol_store::instruction::CancelReferralCodeTransfer {},
        ),
        Built::Accept { signer, user_acc, code_acc, receiver_acc } => store_ix(
            gmsol_store::accounts::AcceptReferralCode {
                next_owner: k.wallets[signer],
                store: k.store,
                user: k.user_pdas[user_acc],
                referral_code: k.code_pdas[code_acc],
                receiver_user: k.user_pdas[receiver_acc],
            },
            gmsol_store::instruction::AcceptReferralCode {},
        ),
    }
}

/// What an honest client reads from the chain while building.
fn held_code(s: &Snap, k: &Keys, u: usize) -> Option<usize> {
    s.users[u].as_ref().and_then(|x| x.2).and_then(|c| k.code_idx.get(&c).copied())
}
fn code_owner(s: &Snap, k: &Keys, c: usize) -> Option<usize> {
    s.codes[c].as_ref().and_then(|x| k.wallet_idx.get(&x.1).copied())
}

fn resolve(op: &Op, cfg: &Cfg, s: &Snap, k: &Keys) -> Option<Built> {
    let nu = cfg.n_users.max(1) as usize;
    let nc = cfg.n_codes.max(1) as usize;
    let u = |x: u8| x as usize % nu;
    let c = |x: u8| x as usize % nc;
    Some(match *op {
        Op::Prepare { signer, user_acc } => Built::Prepare { signer: u(signer), user_acc: u(user_acc) },
        Op::InitCode { signer, user_acc, code, code_acc } => {
            Built::InitCode { signer: u(signer), user_acc: u(user_acc), code: c(code), code_acc: c(code_acc) }
        }
        Op::SetReferrer { signer, user_acc, code, code_acc, referrer_acc } => {
            let referrer_acc = match referrer_acc {
                Some(r) => u(r),
                None => code_owner(s, k, c(code_acc))?,
            };
            Built::SetReferrer { signer: u(signer), user_acc: u(user_acc), code: c(code), code_acc: c(code_acc), referrer_acc }
        }
        Op::Transfer { signer, user_acc, code_acc, receiver } => {
            let code_acc = match code_acc {
                Some(x) => c(x),
                None => held_code(s, k, u(user_acc))?,
            };
            Built::Transfer { signer: u(signer), user_acc: u(user_acc), code_acc, receiver: u(receiver) }
        }
        Op::Cancel { signer, user_acc, code_acc } => {
            let code_acc = match code_acc {
                Some(x) => c(x),
                None => held_code(s, k, u(user_acc))?,
            };
            Built::Cancel { signer: u(signer), user_acc: u(user_acc), code_acc }
        }
        Op::Accept { signer, user_acc, code_acc, receiver_acc } => {
            let user_acc = match user_acc {
                Some(x) => u(x),
                None => code_owner(s, k, c(code_acc))?,
            };
            Built::Accept { signer: u(signer), user_acc, code_acc: c(code_acc), receiver_acc: u(receiver_acc) }
        }
    })
}

pub struct ReferralSim;

struct Pending {
    at: usize,
    seq: u64,
    built: Built,
    op: Op,
    dup: bool,
    delayed: bool,
}

struct Run<'a> {
    w: World,
    k: Keys,
    m: Model,
    cfg: &'a Cfg,
}

impl<'a> Run<'a> {
    fn deliver(&mut self, p: &Pending, obs: &mut Obs) {
        let b = &p.built;
        let pre = snapshot(&self.w, &self.k);
        // staleness: would an honest client build the same transaction now?
        if let Some(now) = resolve(&p.op, self.cfg, &pre, &self.k) {
            if now != *b {
                obs.fault("stale_accounts");
            }
        } else {
            obs.fault("stale_accounts");
        }
        if p.dup {
            obs.fault("duplicate_tx");
        }
        if p.delayed {
            obs.fault("delayed_tx");
        }
        if b.byzantine() {
            obs.fault("byzantine_signer");
        }
        let verdict = self.m.judge(b);
        let ix = build_ix(b, &self.k);
        let out = self.w.process_tx(&[ix], &TxOpts::default());
        let post = snapshot(&self.w, &self.k);
        let class = out.class();
        obs.event(|| format!("{b:?} model={verdict:?} -> {class}"));
        obs.outcome(if b.byzantine() { "twin" } else { "user" }, b.name(), &class);
        if let Err(r) = verdict {
            obs.probe(&format!("rejected:{r}"));
        }

        let k = &self.k;
        let n = k.wallets.len();
        let referrer = |s: &Snap, u: usize| s.users[u].as_ref().and_then(|x| x.1);

        // ---- statement oracles, computed from the decoded chain state only
        for u in 0..n {
            if let Some(old) = referrer(&pre, u) {
                obs.checked("write_once");
                if referrer(&post, u) != Some(old) {
                    obs.violation(
                        P,
                        "write_once",
                        format!("op={}", b.name()),
                        format!("referrer of wallet #{u} changed from {old} to {:?} by {b:?}", referrer(&post, u)),
                    );
                }
            }
            if let Some(r) = referrer(&post, u) {
                obs.checked("no_self");
                if r == k.wallets[u] {
                    obs.violation(P, "no_self", format!("op={}", b.name()), format!("wallet #{u} is its own referrer after {b:?}"));
                }
                if let Some(&ri) = k.wallet_idx.get(&r) {
                    if ri != u && referrer(&post, ri) == Some(k.wallets[u]) && ri > u {
                        obs.violation(
                            P,
                            "no_mutual",
                            format!("op={}", b.name()),
                            format!("wallets #{u} and #{ri} refer to each other after {b:?}"),
                        );
                    }
                }
            }
        }
        for c in 0..k.code_pdas.len() {
            match (&pre.codes[c], &post.codes[c]) {
                (Some(_), None) => {
                    obs.violation(P, "one_owner", format!("op={},kind=code_vanished", b.name()), format!("code #{c} account vanished by {b:?}"));
                }
                (Some(a), Some(z)) if a.1 != z.1 => {
                    obs.checked("owner_changes_only_on_accept");
                    let legit = matches!(*b, Built::Accept { signer, code_acc, .. }
                        if code_acc == c && out.ok && k.wallets[signer] == a.2 && z.1 == a.2);
                    if !legit {
                        obs.violation(
                            P,
                            "owner_changes_only_on_accept",
                            format!("op={},byzantine={}", b.name(), b.byzantine()),
                            format!(
                                "owner of code #{c} changed {} -> {} (proposed owner was {}) by {b:?} signed by {}",
                                a.1,
                                z.1,
                                a.2,
                                k.wallets[b.signer()]
                            ),
                        );
                    } else {
                        obs.probe("ownership_transferred");
                    }
                }
                _ => {}
            }
            if let Some(z) = &post.codes[c] {
                obs.checked("one_owner");
                let holders: Vec<usize> = (0..n).filter(|u| post.users[*u].as_ref().and_then(|x| x.2) == Some(k.code_pdas[c])).collect();
                let owner_idx = k.wallet_idx.get(&z.1).copied();
                if holders.len() != 1 || Some(holders[0]) != owner_idx {
                    obs.violation(
                        P,
                        "one_owner",
                        format!("op={},holders={}", b.name(), holders.len().min(2)),
                        format!("code #{c}: recorded owner {:?} ({}), wallets holding it: {holders:?} after {b:?}", owner_idx, z.1),
                    );
                }
            }
        }
        if !out.ok && pre != post {
            obs.violation(P, "failed_tx_changed_state", format!("op={}", b.name()), format!("{b:?} failed with {class} but state changed"));
        }

        // ---- model oracles: which transactions may land, and the resulting state
        obs.checked("tx_vs_model");
        match (&verdict, out.ok) {
            (Err(r), true) => {
                obs.violation(
                    P,
                    "forbidden_tx_landed",
                    format!("op={},reason={r}", b.name()),
                    format!("{b:?} must be rejected ({r}) but succeeded"),
                );
            }
            (Ok(()), false) => {
                obs.violation(
                    P,
                    "allowed_tx_rejected",
                    format!("op={},err={class}", b.name()),
                    format!("{b:?} is well-formed and allowed by the model but failed: {class} {:?}", out.error),
                );
            }
            _ => {}
        }
        if out.ok && verdict.is_ok() {
            self.m.apply(b);
        }
        let want = model_snap(&self.m, k);
        obs.checked("state_vs_model");
        if want != post {
            obs.violation(
                P,
                "state_vs_model",
                format!("op={}", b.name()),
                format!("after {b:?} ({class}) chain {post:?} != model {want:?}"),
            );
            // only reached when the violation is a known finding: continue from the chain state
            self.m = model_from_snap(&post, k);
        }
        // abstract state fingerprint: referrer graph + ownership + pending proposals
        let mut words = vec![hash_str(b.name()), out.ok as u64];
        for u in 0..n {
            words.push(self.m.referrer[u].map(|x| x as u64 + 1).unwrap_or(0) | (self.m.ucode[u].map(|x| x as u64 + 1).unwrap_or(0) << 8));
        }
        for c in self.m.codes.iter() {
            words.push(c.map(|(o, nx)| 1 + o as u64 * 8 + nx as u64).unwrap_or(0));
        }
        obs.event_hash(&words);
        obs.fingerprint(&words[2..]);
        // reach probes
        if out.ok {
            match *b {
                Built::SetReferrer { signer, referrer_acc, .. } => {
                    // longer cycles are allowed by the statement
                    let mut cur = referrer_acc;
                    let mut len = 1;
                    while let Some(nx) = self.m.referrer[cur] {
                        len += 1;
                        if nx == signer {
                            obs.probe("referral_cycle_len_ge3");
                            break;
                        }
                        if len > n {
                            break;
                        }
                        cur = nx;
                    }
                }
                Built::Cancel { .. } => obs.probe("transfer_cancelled"),
                _ => {}
            }
        }
    }
}

fn setup(cfg: &Cfg) -> (World, Dep, Keys) {
    let (mut w, d) = base_world();
    let nu = cfg.n_users.max(1) as usize;
    let nc = cfg.n_codes.max(1) as usize;
    let mut wallets = vec![];
    for i in 0..nu {
        let k = w.new_key(&format!("wallet{i}"));
        w.fund(&k, 100_000_000_000);
        wallets.push(k);
    }
    let user_pdas: Vec<Pubkey> = wallets.iter().map(|o| user_pda(&d.store, o)).collect();
    let cb: Vec<[u8; 8]> = (0..nc).map(code_bytes).collect();
    let code_pdas: Vec<Pubkey> = cb.iter().map(|c| code_pda(&d.store, c)).collect();
    let wallet_idx = wallets.iter().enumerate().map(|(i, k)| (*k, i)).collect();
    let code_idx = code_pdas.iter().enumerate().map(|(i, k)| (*k, i)).collect();
    let keys = Keys { store: d.store, wallets, user_pdas, code_bytes: cb, code_pdas, wallet_idx, code_idx };
    (w, d, keys)
}

impl Scenario for ReferralSim {
    type Cfg = Cfg;
    type Step = Step;

    fn name(&self) -> &'static str {
        "referralsim"
    }

    fn generate(&self, seed: u64, run: u64, tier: Tier, _focus: &str) -> (Cfg, Vec<Step>) {
        let mut rng = Rng::derive(seed, run, "referral.cfg");
        let n_users = rng.range(2, 6) as u8;
        let cfg = Cfg { n_users, n_codes: 1 + rng.range(1, n_users as u64 + 1) as u8, faults: run % 4 != 0 };
        let nu = cfg.n_users as usize;
        let nc = cfg.n_codes as usize;
        let mut rng = Rng::derive(seed, run, "referral.plan");
        let n_steps = match rng.below(20) {
            0..=11 => rng.range(5, 40),
            12..=17 => rng.range(40, 80),
            _ => match tier {
                Tier::Quick => rng.range(80, 140),
                Tier::Thorough => rng.range(80, 300),
            },
        } as usize;
        // shadow model for biasing only (assumes in-order delivery)
        let mut sh = Model::new(nu, nc);
        let shk = ShadowKeys::get(nu, nc);
        let mut steps = Vec::with_capacity(n_steps);
        let prep_first = rng.chance(3, 4);
        for i in 0..n_steps {
            let any = |rng: &mut Rng| rng.below(nu as u64) as u8;
            let pick = |rng: &mut Rng, v: &[usize]| -> Option<u8> {
                if v.is_empty() {
                    None
                } else {
                    Some(v[rng.below(v.len() as u64) as usize] as u8)
                }
            };
            let prepared: Vec<usize> = (0..nu).filter(|u| sh.prepared[*u]).collect();
            let unprepared: Vec<usize> = (0..nu).filter(|u| !sh.prepared[*u]).collect();
            let owners: Vec<usize> = (0..nu).filter(|u| sh.ucode[*u].is_some()).collect();
            let codeless: Vec<usize> = (0..nu).filter(|u| sh.prepared[*u] && sh.ucode[*u].is_none()).collect();
            let free_codes: Vec<usize> = (1..nc).filter(|c| sh.codes[*c].is_none()).collect();
            let live_codes: Vec<usize> = (1..nc).filter(|c| sh.codes[*c].is_some()).collect();
            let pending: Vec<usize> = (1..nc).filter(|c| matches!(sh.codes[*c], Some((o, nx)) if o != nx)).collect();

            // candidate lists: moves the (in-order) shadow model allows, and targeted forbidden moves
            let good_init: Vec<(usize, usize)> = codeless.iter().flat_map(|u| free_codes.iter().map(move |c| (*u, *c))).collect();
            let mut good_ref: Vec<(usize, usize)> = vec![];
            let mut mutual_ref: Vec<(usize, usize)> = vec![];
            let mut self_ref: Vec<(usize, usize)> = vec![];
            let mut again_ref: Vec<(usize, usize)> = vec![];
            for &c in &live_codes {
                let o = sh.codes[c].unwrap().0;
                for &u in &prepared {
                    if u == o {
                        self_ref.push((u, c));
                    } else if sh.referrer[u].is_some() {
                        again_ref.push((u, c));
                    } else if sh.referrer[o] == Some(u) {
                        mutual_ref.push((u, c));
                    } else {
                        good_ref.push((u, c));
                    }
                }
            }
            let good_transfer: Vec<(usize, usize)> = owners
                .iter()
                .flat_map(|o| codeless.iter().map(move |r| (*o, *r)))
                .filter(|(o, r)| sh.codes[sh.ucode[*o].unwrap()].unwrap().1 != *r)
                .collect();
            let good_accept: Vec<usize> = pending.iter().copied().filter(|c| sh.ucode[sh.codes[*c].unwrap().1].is_none()).collect();
            let pick2 = |rng: &mut Rng, v: &[(usize, usize)]| v[rng.below(v.len() as u64) as usize];
            let w = |n: usize, w: u32| if n == 0 { 0 } else { w };
            let early_prepare = prep_first && i < nu && !unprepared.is_empty();
            let table = [
                (if early_prepare { 400 } else { w(unprepared.len(), 10) }, 0u8),
                (w(good_init.len(), 16), 1),
                (w(good_ref.len(), 22), 2),
                (w(mutual_ref.len(), 18), 3),
                (w(self_ref.len(), 3), 4),
                (w(again_ref.len(), 6), 5),
                (w(good_transfer.len(), 14), 6),
                (w(pending.len(), 8), 7),
                (w(good_accept.len(), 16), 8),
                (w(pending.len(), 6), 9),
                (8, 10),
            ];
            let kind = *rng.weighted(&table);
            let mut op = match kind {
                0 => {
                    let u = pick(&mut rng, &unprepared).unwrap();
                    Op::Prepare { signer: u, user_acc: u }
                }
                1 => {
                    let (u, c) = pick2(&mut rng, &good_init);
                    Op::InitCode { signer: u as u8, user_acc: u as u8, code: c as u8, code_acc: c as u8 }
                }
                2..=5 => {
                    let (u, c) = match kind {
                        2 => pick2(&mut rng, &good_ref),
                        3 => pick2(&mut rng, &mutual_ref),
                        4 => pick2(&mut rng, &self_ref),
                        _ => pick2(&mut rng, &again_ref),
                    };
                    Op::SetReferrer { signer: u as u8, user_acc: u as u8, code: c as u8, code_acc: c as u8, referrer_acc: None }
                }
                6 => {
                    let (o, r) = pick2(&mut rng, &good_transfer);
                    Op::Transfer { signer: o as u8, user_acc: o as u8, code_acc: None, receiver: r as u8 }
                }
                7 => {
                    let c = pick(&mut rng, &pending).unwrap() as usize;
                    let o = sh.codes[c].unwrap().0 as u8;
                    Op::Cancel { signer: o, user_acc: o, code_acc: None }
                }
                8 => {
                    let c = pick(&mut rng, &good_accept).unwrap();
                    let s = sh.codes[c as usize].unwrap().1 as u8;
                    Op::Accept { signer: s, user_acc: None, code_acc: c, receiver_acc: s }
                }
                9 => {
                    // somebody who was not proposed tries to accept a pending transfer
                    let c = pick(&mut rng, &pending).unwrap();
                    let s = any(&mut rng);
                    Op::Accept { signer: s, user_acc: None, code_acc: c, receiver_acc: s }
                }
                _ => {
                    // unconstrained random operation
                    let (u, v) = (any(&mut rng), any(&mut rng));
                    let c = rng.below(nc as u64) as u8;
                    match rng.below(6) {
                        0 => Op::Prepare { signer: u, user_acc: u },
                        1 => Op::InitCode { signer: u, user_acc: u, code: c, code_acc: c },
                        2 => Op::SetReferrer { signer: u, user_acc: u, code: c, code_acc: c, referrer_acc: None },
                        3 => Op::Transfer { signer: u, user_acc: u, code_acc: None, receiver: v },
                        4 => Op::Cancel { signer: u, user_acc: u, code_acc: None },
                        _ => Op::Accept { signer: u, user_acc: None, code_acc: c, receiver_acc: u },
                    }
                }
            };
            let mut st = Step { op, delay: 0, dup: None, lost: false };
            if cfg.faults {
                // byzantine twin: one account slot substituted / signed by somebody else
                if rng.chance(1, 5) {
                    let x = any(&mut rng);
                    let y = rng.below(nc as u64) as u8;
                    op = match op {
                        Op::Prepare { signer, user_acc } => {
                            if rng.bool() {
                                Op::Prepare { signer: x, user_acc }
                            } else {
                                Op::Prepare { signer, user_acc: x }
                            }
                        }
                        Op::InitCode { signer, user_acc, code, code_acc } => match rng.below(3) {
                            0 => Op::InitCode { signer: x, user_acc, code, code_acc },
                            1 => Op::InitCode { signer, user_acc: x, code, code_acc },
                            _ => Op::InitCode { signer, user_acc, code, code_acc: y },
                        },
                        Op::SetReferrer { signer, user_acc, code, code_acc, referrer_acc } => match rng.below(5) {
                            0 => Op::SetReferrer { signer: x, user_acc, code, code_acc, referrer_acc },
                            1 => Op::SetReferrer { signer, user_acc: x, code, code_acc, referrer_acc },
                            2 => Op::SetReferrer { signer, user_acc, code: y, code_acc, referrer_acc },
                            3 => Op::SetReferrer { signer, user_acc, code, code_acc: y, referrer_acc },
                            _ => Op::SetReferrer { signer, user_acc, code, code_acc, referrer_acc: Some(x) },
                        },
                        Op::Transfer { signer, user_acc, code_acc, receiver } => match rng.below(3) {
                            0 => Op::Transfer { signer: x, user_acc, code_acc, receiver },
                            1 => Op::Transfer { signer, user_acc: x, code_acc, receiver },
                            _ => Op::Transfer { signer, user_acc, code_acc: Some(y), receiver },
                        },
                        Op::Cancel { signer, user_acc, code_acc: _ } => match rng.below(3) {
                            0 => Op::Cancel { signer: x, user_acc, code_acc: None },
                            1 => Op::Cancel { signer, user_acc: x, code_acc: None },
                            _ => Op::Cancel { signer, user_acc, code_acc: Some(y) },
                        },
                        Op::Accept { signer, user_acc, code_acc, receiver_acc } => match rng.below(4) {
                            0 => Op::Accept { signer: x, user_acc, code_acc, receiver_acc },
                            1 => Op::Accept { signer, user_acc: Some(x), code_acc, receiver_acc },
                            2 => Op::Accept { signer, user_acc, code_acc, receiver_acc: x },
                            _ => Op::Accept { signer, user_acc, code_acc: y, receiver_acc },
                        },
                    };
                    st.op = op;
                }
                if rng.chance(1, 4) {
                    st.delay = rng.range(1, 4) as u8;
                }
                if rng.chance(1, 8) {
                    st.dup = Some(rng.range(0, 4) as u8);
                }
                if rng.chance(1, 25) {
                    st.lost = true;
                }
            }
            // shadow: in-order, assume allowed => lands
            if !st.lost {
                let s = model_snap(&sh, &shk);
                if let Some(b) = resolve(&st.op, &cfg, &s, &shk) {
                    if sh.judge(&b).is_ok() {
                        sh.apply(&b);
                    }
                }
            }
            steps.push(st);
        }
        (cfg, steps)
    }

    fn execute(&self, cfg: &Cfg, steps: &[Step], obs: &mut Obs) {
        let (w, _d, k) = setup(cfg);
        let nu = k.wallets.len();
        let nc = k.code_pdas.len();
        let mut run = Run { w, k, m: Model::new(nu, nc), cfg };
        let mut pending: Vec<Pending> = vec![];
        let mut seq = 0u64;
        let total = steps.len();
        for i in 0..=total {
            if i < total {
                obs.set_step(i);
                let st = &steps[i];
                let s = snapshot(&run.w, &run.k);
                match resolve(&st.op, cfg, &s, &run.k) {
                    None => {
                        obs.outcome("user", "build", "unbuildable");
                    }
                    Some(b) => {
                        if st.lost {
                            obs.fault("tx_loss");
                            obs.event(|| format!("lost {b:?}"));
                        } else {
                            seq += 1;
                            let at = i + st.delay as usize;
                            pending.push(Pending { at, seq, built: b, op: st.op, dup: false, delayed: st.delay > 0 });
                            if let Some(d) = st.dup {
                                seq += 1;
                                pending.push(Pending { at: at + d as usize, seq, built: b, op: st.op, dup: true, delayed: st.delay > 0 });
                            }
                        }
                    }
                }
            }
            // deliver what is due (everything after the last step)
            pending.sort_by_key(|p| (p.at, p.seq));
            let mut rest = vec![];
            for p in pending.drain(..) {
                if p.at <= i || i == total {
                    run.deliver(&p, obs);
                    if obs.should_stop() {
                        return;
                    }
                } else {
                    rest.push(p);
                }
            }
            pending = rest;
            run.w.advance(1, 1);
            obs.sim_seconds += 1;
        }
    }

    fn simplify_step(&self, s: &Step) -> Vec<Step> {
        let mut out = vec![];
        if s.dup.is_some() {
            out.push(Step { dup: None, ..*s });
        }
        if s.delay > 0 {
            out.push(Step { delay: 0, ..*s });
        }
        if s.lost {
            out.push(Step { lost: false, ..*s });
        }
        // make the transaction coherent (remove the byzantine substitution)
        let coherent = match s.op {
            Op::Prepare { signer, .. } => Op::Prepare { signer, user_acc: signer },
            Op::InitCode { signer, code, .. } => Op::InitCode { signer, user_acc: signer, code, code_acc: code },
            Op::SetReferrer { signer, code, .. } => Op::SetReferrer { signer, user_acc: signer, code, code_acc: code, referrer_acc: None },
            Op::Transfer { signer, receiver, .. } => Op::Transfer { signer, user_acc: signer, code_acc: None, receiver },
            Op::Cancel { signer, .. } => Op::Cancel { signer, user_acc: signer, code_acc: None },
            Op::Accept { signer, code_acc, .. } => Op::Accept { signer, user_acc: None, code_acc, receiver_acc: signer },
        };
        if coherent != s.op {
            out.push(Step { op: coherent, ..*s });
        }
        out
    }

    fn simplify_cfg(&self, cfg: &Cfg) -> Vec<Cfg> {
        let mut out = vec![];
        if cfg.n_users > 2 {
            out.push(Cfg { n_users: cfg.n_users - 1, ..cfg.clone() });
        }
        if cfg.n_codes > 2 {
            out.push(Cfg { n_codes: cfg.n_codes - 1, ..cfg.clone() });
        }
        out
    }

    fn components(&self) -> Components {
        Components {
            real: vec![
                "gmsol_store program entrypoint: prepare_user, initialize_referral_code, set_referrer, transfer_referral_code, cancel_referral_code_transfer, accept_referral_code (programs/store/src/instructions/user.rs, states/user.rs) incl. Anchor account validation".into(),
                "gmsol_store::states::user::{UserHeader, ReferralCodeV2} zero-copy decoding of the resulting accounts".into(),
            ],
            stub: vec![
                "chainsim runtime (accounts db, loader, CPI, sysvars, system program)".into(),
                "reference model: write-once referrer map, code -> (owner, proposed owner), per-instruction allow/deny predicate".into(),
            ],
        }
    }

    fn rule(&self) -> String {
        "one run = 2-6 wallets, 1-7 referral codes (plus the invalid all-zero code) and 5-300 planned transactions (prepare_user, initialize_referral_code, set_referrer, transfer, cancel, accept) chosen by a scheduler biased towards A->B / B->A referrer pairs, self referrals, pending-transfer races and accept by non-proposed wallets; in 3 of 4 runs transactions are additionally delayed 1-4 steps after being built (stale accounts), duplicated, lost, or turned into byzantine twins (foreign signer / substituted user, code or referrer account). distinct_nontrivial counts trigrams of (role, instruction, outcome class) plus fingerprints of the abstract state (referrer graph, code holders, owners and proposed owners)".into()
    }
}

/// Index-only keys for the generation-time shadow model (no chain involved): wallet i = key [i+1; 32], code c = key
/// [0x80 + c; 32].
struct ShadowKeys;
impl ShadowKeys {
    fn get(nu: usize, nc: usize) -> Keys {
        let wallets: Vec<Pubkey> = (0..nu).map(|i| Pubkey::new_from_array([i as u8 + 1; 32])).collect();
        let code_pdas: Vec<Pubkey> = (0..nc).map(|i| Pubkey::new_from_array([0x80 + i as u8; 32])).collect();
        Keys {
            store: Pubkey::default(),
            user_pdas: wallets.clone(),
            code_bytes: (0..nc).map(code_bytes).collect(),
            wallet_idx: wallets.iter().enumerate().map(|(i, k)| (*k, i)).collect(),
            code_idx: code_pdas.iter().enumerate().map(|(i, k)| (*k, i)).collect(),
            wallets,
            code_pdas,
        }
    }
}
