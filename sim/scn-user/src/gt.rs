//! C30 — GT balances, supply, minting-cost schedule, ranks and exchange windows under keeper / user histories with
//! clock faults, byzantine signers, stale requests and cluster restarts.

use chainsim::deploy::{read_pod, store_ix, Dep, ALL_ROLES};
use chainsim::rt::{TxOpts, TxOutcome, World};
use gmsol_programs::gmsol_store::accounts::Store as SdkStore;
use gmsol_store::states::gt::{GtExchange, GtExchangeVault};
use gmsol_store::states::user::UserHeader;
use gmsol_store::states::Store;
use num_traits::ToPrimitive;
use serde::{Deserialize, Serialize};
use simcore::big::bu;
use simcore::rng::hash_str;
use simcore::{Components, Obs, Rng, Scenario, Tier};
use solana_program::{instruction::Instruction, pubkey::Pubkey, system_program};

use crate::common::{base_world, grant_role_ix, gt_exchange_pda, gt_vault_pda, prepare_user_ix, user_pda, UNIT};

const P: &str = "C30";
pub const DEFAULT_WINDOW: u32 = 24 * 60 * 60;
/// A single mint may not cross more than this many grow steps (the program loops once per step; on chain the
/// compute budget bounds it, here it would only burn wall time).
const MAX_STEPS_PER_MINT: u64 = 3000;

#[derive(Clone, Debug, Serialize, Deserialize)]
pub struct Cfg {
    pub n_users: u8,
    /// how many of them get a user account in the fixture (the rest stay unprepared)
    pub n_prepared: u8,
    pub decimals: u8,
    #[serde(with = "crate::common::u128_str")]
    pub cost0: u128,
    #[serde(with = "crate::common::u128_str")]
    pub grow_factor: u128,
    pub grow_step: u64,
    pub ranks: Vec<u64>,
    pub window: u32,
    pub faults: bool,
}

/// Signers of keeper instructions: 0 = GT controller only, 1 = every role except GT_CONTROLLER, 2 = stranger,
/// 3 = the fixture's all-role keeper.
const N_BY: usize = 4;

#[derive(Clone, Copy, Debug, Serialize, Deserialize, PartialEq, Eq)]
pub enum MintAmt {
    Abs(u64),
    /// bring the balance to `threshold[idx] + off`
    ToThreshold { idx: u8, off: i8 },
    /// bring the total minted to `n` grow-step boundaries ahead `+ off`
    ToStep { n: u16, off: i8 },
}

#[derive(Clone, Copy, Debug, Serialize, Deserialize, PartialEq, Eq)]
pub enum BurnAmt {
    Abs(u64),
    All,
    /// leave `threshold[idx] + off`
    DownToThreshold { idx: u8, off: i8 },
    /// balance + k (must fail)
    OverBy(u8),
}

#[derive(Clone, Copy, Debug, Serialize, Deserialize, PartialEq, Eq)]
pub enum VaultSel {
    /// the vault of the current window under the store's current window length (may not exist yet)
    Current,
    /// the k-th most recently prepared vault (possibly of a past window or of a different window length)
    Known(u8),
}

#[derive(Clone, Copy, Debug, Serialize, Deserialize, PartialEq, Eq)]
pub enum Step {
    Mint { user: u8, amount: MintAmt, by: u8, split: Option<(u8, u8)> },
    Request { user: u8, signer: Option<u8>, amount: BurnAmt, vault: VaultSel },
    PrepareVault { index_off: i8, payer: u8 },
    Confirm { vault: u8, by: u8 },
    Close { exchange: u8, by: u8 },
    UpdateCumInv { by: u8 },
    Advance { secs: i64 },
    /// move the clock to the next boundary of the store's current window `+ off` seconds
    ToBoundary { off: i8 },
    SetWindow { window: u32 },
    Restart,
    FixRestart,
}

impl Step {
    fn name(&self) -> &'static str {
        match self {
            Step::Mint { .. } => "mint_gt_reward",
            Step::Request { .. } => "request_gt_exchange",
            Step::PrepareVault { .. } => "prepare_gt_exchange_vault",
            Step::Confirm { .. } => "confirm_gt_exchange_vault_v2",
            Step::Close { .. } => "close_gt_exchange",
            Step::UpdateCumInv { .. } => "update_gt_cumulative_inv_cost_factor",
            Step::Advance { .. } => "advance",
            Step::ToBoundary { .. } => "to_boundary",
            Step::SetWindow { .. } => "gt_set_exchange_time_window",
            Step::Restart => "restart",
            Step::FixRestart => "update_last_restarted_slot",
        }
    }
}

#[derive(Clone, Debug)]
struct MVault {
    key: Pubkey,
    index: i64,
    window: u32,
    amount: u64,
    confirmed: bool,
}

#[derive(Clone, Debug)]
struct MExchange {
    key: Pubkey,
    vault: usize,
    user: usize,
    amount: u64,
}

#[derive(Clone, Debug)]
struct Model {
    prepared: Vec<bool>,
    /// a non-zero mint or burn was applied to the user (ranks are only recomputed then)
    touched: Vec<bool>,
    bal: Vec<u64>,
    supply: u64,
    total: u64,
    k: u64,
    cost: u128,
    gt_vault: u64,
    cum_inv: u128,
    cum_ts: i64,
    window: u32,
    vaults: Vec<MVault>,
    exchanges: Vec<MExchange>,
    /// the store's recorded restart slot differs from the cluster's
    outdated: bool,
}

fn mul_div_u128(a: u128, b: u128, c: u128) -> Option<u128> {
    (bu(a) * bu(b) / bu(c)).to_u128()
}

impl Model {
    /// Cost after reaching `k_new` steps: one floor-rounded multiplication per step; `None` = overflow.
    fn cost_at(&self, cfg: &Cfg, k_new: u64) -> Option<u128> {
        let mut c = self.cost;
        for _ in self.k..k_new {
            c = mul_div_u128(c, cfg.grow_factor, UNIT)?;
        }
        Some(c)
    }

    /// Result of `update_cumulative_inv_cost_factor` at `now`: `None` = overflow.
    fn cum_inv_at(&self, now: i64) -> Option<u128> {
        let dt = now.saturating_sub(self.cum_ts).max(0) as u128;
        let delta = if self.cost == 0 { 0 } else { mul_div_u128(dt, UNIT, self.cost)? };
        self.cum_inv.checked_add(delta)
    }

    fn rank_of(cfg: &Cfg, bal: u64) -> u8 {
        cfg.ranks.iter().take(15).filter(|t| **t <= bal).count() as u8
    }
}

struct Actors {
    by: Vec<Pubkey>,
    has_gc: [bool; N_BY],
    wallets: Vec<Pubkey>,
    user_pdas: Vec<Pubkey>,
}

/// A step with everything resolved against the current state.
#[derive(Clone, Debug)]
enum Tx {
    Mint { user: usize, amount: u64, by: usize },
    Request { user: usize, signer: usize, amount: u64, vault_key: Pubkey, vault: Option<usize>, exchange_key: Pubkey },
    PrepareVault { index: i64, window: u32, off: i8, key: Pubkey, payer: usize },
    Confirm { vault: usize, by: usize },
    Close { exchange: usize, by: usize },
    UpdateCumInv { by: usize },
    FixRestart,
}

pub struct GtSim;

struct Run<'a> {
    w: World,
    d: Dep,
    a: Actors,
    m: Model,
    cfg: &'a Cfg,
    win_off: usize,
}

fn window_offset() -> usize {
    8 + std::mem::offset_of!(SdkStore, gt) + std::mem::offset_of!(gmsol_programs::gmsol_store::types::GtState, exchange_time_window)
}

impl<'a> Run<'a> {
    fn now(&self) -> i64 {
        self.w.clock.unix_timestamp
    }

    fn judge(&self, tx: &Tx) -> Result<(), &'static str> {
        let m = &self.m;
        let now = self.now();
        // after a cluster restart every role-gated instruction is refused until the admin acknowledges it
        // (only RESTART_ADMIN holders may act; the fixture has none)
        if m.outdated && matches!(tx, Tx::Mint { .. } | Tx::Confirm { .. } | Tx::Close { .. } | Tx::UpdateCumInv { .. }) {
            return Err("store_outdated");
        }
        match tx {
            Tx::Mint { user, amount, by } => {
                if !self.a.has_gc[*by] {
                    return Err("not_gt_controller");
                }
                if !m.prepared[*user] {
                    return Err("user_not_prepared");
                }
                if *amount == 0 {
                    return Ok(());
                }
                let Some(total) = m.total.checked_add(*amount) else { return Err("total_minted_overflow") };
                if m.cost_at(self.cfg, total / self.cfg.grow_step).is_none() {
                    return Err("minting_cost_overflow");
                }
                if m.cum_inv_at(now).is_none() {
                    return Err("cumulative_inv_cost_overflow");
                }
                Ok(())
            }
            Tx::Request { user, signer, amount, vault, .. } => {
                if signer != user {
                    return Err("foreign_user_account");
                }
                if !m.prepared[*user] {
                    return Err("user_not_prepared");
                }
                if m.outdated {
                    return Err("store_outdated");
                }
                let Some(v) = vault else { return Err("vault_missing") };
                let v = &m.vaults[*v];
                if *amount > m.bal[*user] {
                    return Err("insufficient_balance");
                }
                if v.confirmed {
                    return Err("vault_confirmed");
                }
                if now / v.window as i64 != v.index {
                    return Err("not_current_window");
                }
                Ok(())
            }
            Tx::PrepareVault { off, key, .. } => {
                if m.outdated {
                    return Err("store_outdated");
                }
                if *off != 0 && !m.vaults.iter().any(|v| v.key == *key) {
                    return Err("not_current_index");
                }
                Ok(())
            }
            Tx::Confirm { vault, by } => {
                if !self.a.has_gc[*by] {
                    return Err("not_gt_controller");
                }
                let v = &m.vaults[*vault];
                if v.confirmed {
                    return Err("already_confirmed");
                }
                if now / v.window as i64 <= v.index {
                    return Err("window_not_passed");
                }
                if m.gt_vault.checked_add(v.amount).is_none() {
                    return Err("gt_vault_overflow");
                }
                Ok(())
            }
            Tx::Close { exchange, by } => {
                if !self.a.has_gc[*by] {
                    return Err("not_gt_controller");
                }
                if !m.vaults[m.exchanges[*exchange].vault].confirmed {
                    return Err("vault_not_confirmed");
                }
                Ok(())
            }
            Tx::UpdateCumInv { by } => {
                if !self.a.has_gc[*by] {
                    return Err("not_gt_controller");
                }
                if m.cum_inv_at(now).is_none() {
                    return Err("cumulative_inv_cost_overflow");
                }
                Ok(())
            }
            Tx::FixRestart => {
                if !m.outdated {
                    return Err("not_outdated");
                }
                Ok(())
            }
        }
    }

    fn apply(&mut self, tx: &Tx) {
        let now = self.now();
        let cfg = self.cfg;
        let m = &mut self.m;
        match tx {
            Tx::Mint { user, amount, .. } => {
                if *amount != 0 {
                    let total = m.total + amount;
                    let k = total / cfg.grow_step;
                    m.cum_inv = m.cum_inv_at(now).unwrap();
                    m.cum_ts = now;
                    m.cost = m.cost_at(cfg, k).unwrap();
                    m.k = k;
                    m.total = total;
                    m.bal[*user] += amount;
                    m.supply += amount;
                    m.touched[*user] = true;
                }
            }
            Tx::Request { user, amount, vault, exchange_key, .. } => {
                let v = vault.unwrap();
                m.bal[*user] -= amount;
                m.supply -= amount;
                if *amount != 0 {
                    m.touched[*user] = true;
                }
                m.vaults[v].amount += amount;
                match m.exchanges.iter_mut().find(|e| e.key == *exchange_key) {
                    Some(e) => e.amount += amount,
                    None => m.exchanges.push(MExchange { key: *exchange_key, vault: v, user: *user, amount: *amount }),
                }
            }
            Tx::PrepareVault { index, window, key, .. } => {
                if !m.vaults.iter().any(|v| v.key == *key) {
                    m.vaults.push(MVault { key: *key, index: *index, window: *window, amount: 0, confirmed: false });
                }
            }
            Tx::Confirm { vault, .. } => {
                m.vaults[*vault].confirmed = true;
                m.gt_vault += m.vaults[*vault].amount;
            }
            Tx::Close { exchange, .. } => {
                m.exchanges.remove(*exchange);
            }
            Tx::UpdateCumInv { .. } => {
                m.cum_inv = m.cum_inv_at(now).unwrap();
                m.cum_ts = now;
            }
            Tx::FixRestart => m.outdated = false,
        }
    }

    fn build(&self, tx: &Tx) -> Instruction {
        let d = &self.d;
        let a = &self.a;
        match tx {
            Tx::Mint { user, amount, by } => mint_ix(d, &a.by[*by], &a.user_pdas[*user], *amount),
            Tx::Request { user, signer, amount, vault_key, exchange_key, .. } => store_ix(
                gmsol_store::accounts::RequestGtExchange {
                    owner: a.wallets[*signer],
                    store: d.store,
                    user: a.user_pdas[*user],
                    vault: *vault_key,
                    exchange: *exchange_key,
                    system_program: system_program::ID,
                    event_authority: d.event_authority,
                    program: gmsol_store::ID,
                },
                gmsol_store::instruction::RequestGtExchange { amount: *amount },
            ),
            Tx::PrepareVault { index, key, payer, .. } => store_ix(
                gmsol_store::accounts::PrepareGtExchangeVault { payer: a.wallets[*payer], store: d.store, vault: *key, system_program: system_program::ID },
                gmsol_store::instruction::PrepareGtExchangeVault { time_window_index: *index },
            ),
            Tx::Confirm { vault, by } => store_ix(
                gmsol_store::accounts::ConfirmGtExchangeVault {
                    authority: a.by[*by],
                    store: d.store,
                    vault: self.m.vaults[*vault].key,
                    event_authority: d.event_authority,
                    program: gmsol_store::ID,
                },
                gmsol_store::instruction::ConfirmGtExchangeVaultV2 { buyback_value: 0, buyback_price: None },
            ),
            Tx::Close { exchange, by } => {
                let e = &self.m.exchanges[*exchange];
                store_ix(
                    gmsol_store::accounts::CloseGtExchange {
                        authority: a.by[*by],
                        store: d.store,
                        owner: a.wallets[e.user],
                        vault: self.m.vaults[e.vault].key,
                        exchange: e.key,
                    },
                    gmsol_store::instruction::CloseGtExchange {},
                )
            }
            Tx::UpdateCumInv { by } => store_ix(
                gmsol_store::accounts::UpdateGtCumulativeInvCostFactor { authority: a.by[*by], store: d.store },
                gmsol_store::instruction::UpdateGtCumulativeInvCostFactor {},
            ),
            Tx::FixRestart => store_ix(
                gmsol_store::accounts::UpdateLastRestartedSlot { authority: d.admin, store: d.store },
                gmsol_store::instruction::UpdateLastRestartedSlot {},
            ),
        }
    }

    fn resolve(&self, st: &Step, obs: &mut Obs) -> Option<Tx> {
        let m = &self.m;
        let cfg = self.cfg;
        let nu = self.a.wallets.len();
        Some(match *st {
            Step::Mint { user, amount, by, .. } => {
                let u = user as usize % nu;
                let amt = match amount {
                    MintAmt::Abs(x) => x,
                    MintAmt::ToThreshold { idx, off } => {
                        if cfg.ranks.is_empty() {
                            1
                        } else {
                            let t = cfg.ranks[idx as usize % cfg.ranks.len().min(15)] as i128 + off as i128;
                            let need = t - m.bal[u] as i128;
                            if need > 0 && need <= u64::MAX as i128 {
                                need as u64
                            } else {
                                1
                            }
                        }
                    }
                    MintAmt::ToStep { n, off } => {
                        let to_next = cfg.grow_step - m.total % cfg.grow_step;
                        let t = to_next as i128 + (n as i128) * cfg.grow_step as i128 + off as i128;
                        if t > 0 && t <= u64::MAX as i128 {
                            t as u64
                        } else {
                            1
                        }
                    }
                };
                let crossing = (m.total.saturating_add(amt)) / cfg.grow_step - m.k;
                if crossing > MAX_STEPS_PER_MINT {
                    obs.probe("mint_skipped_too_many_grow_steps");
                    return None;
                }
                Tx::Mint { user: u, amount: amt, by: by as usize % N_BY }
            }
            Step::Request { user, signer, amount, vault } => {
                let u = user as usize % nu;
                let s = signer.map(|s| s as usize % nu).unwrap_or(u);
                let bal = m.bal[u];
                let amt = match amount {
                    BurnAmt::Abs(x) => x,
                    BurnAmt::All => bal,
                    BurnAmt::DownToThreshold { idx, off } => {
                        if cfg.ranks.is_empty() {
                            bal / 2
                        } else {
                            let t = cfg.ranks[idx as usize % cfg.ranks.len().min(15)] as i128 + off as i128;
                            let burn = bal as i128 - t;
                            if burn > 0 {
                                burn as u64
                            } else {
                                bal / 2
                            }
                        }
                    }
                    BurnAmt::OverBy(k) => bal.saturating_add(k.max(1) as u64),
                };
                let (vault_key, vidx) = match vault {
                    VaultSel::Known(k) if !m.vaults.is_empty() => {
                        let i = m.vaults.len() - 1 - k as usize % m.vaults.len();
                        (m.vaults[i].key, Some(i))
                    }
                    _ => {
                        let idx = self.now() / m.window as i64;
                        let key = gt_vault_pda(&self.d.store, idx, m.window);
                        (key, m.vaults.iter().position(|v| v.key == key))
                    }
                };
                let exchange_key = gt_exchange_pda(&vault_key, &self.a.wallets[s]);
                Tx::Request { user: u, signer: s, amount: amt, vault_key, vault: vidx, exchange_key }
            }
            Step::PrepareVault { index_off, payer } => {
                let index = self.now() / m.window as i64 + index_off as i64;
                let key = gt_vault_pda(&self.d.store, index, m.window);
                Tx::PrepareVault { index, window: m.window, off: index_off, key, payer: payer as usize % nu }
            }
            Step::Confirm { vault, by } => {
                if m.vaults.is_empty() {
                    return None;
                }
                Tx::Confirm { vault: m.vaults.len() - 1 - vault as usize % m.vaults.len(), by: by as usize % N_BY }
            }
            Step::Close { exchange, by } => {
                if m.exchanges.is_empty() {
                    return None;
                }
                Tx::Close { exchange: m.exchanges.len() - 1 - exchange as usize % m.exchanges.len(), by: by as usize % N_BY }
            }
            Step::UpdateCumInv { by } => Tx::UpdateCumInv { by: by as usize % N_BY },
            Step::FixRestart => Tx::FixRestart,
            _ => return None,
        })
    }

    /// Statement invariants on the decoded chain state. Returns the decoded GT header numbers.
    fn check_invariants(&self, obs: &mut Obs, after: &str, pre_total: u64) -> Option<u64> {
        let cfg = self.cfg;
        let Some(store) = read_pod::<Store>(&self.w, &self.d.store) else {
            obs.violation(P, "decode", "which=store".into(), "store not decodable".into());
            return None;
        };
        let gt = store.gt();
        let mut sum: u128 = 0;
        for (u, pda) in self.a.user_pdas.iter().enumerate() {
            let hdr = read_pod::<UserHeader>(&self.w, pda);
            obs.checked("state_vs_model");
            match (&hdr, self.m.prepared[u]) {
                (Some(h), true) => {
                    let (amount, rank) = (h.gt().amount(), h.gt().rank());
                    sum += amount as u128;
                    let want = cfg.ranks.iter().take(15).filter(|t| **t <= amount).count() as u8;
                    obs.checked("rank_is_threshold_count");
                    if rank != want {
                        let touched = self.m.touched[u];
                        obs.violation(
                            P,
                            "rank_is_threshold_count",
                            format!("zero_threshold={},touched={touched},after={after}", cfg.ranks.first() == Some(&0)),
                            format!("user #{u}: balance {amount}, rank {rank}, thresholds {:?} => expected rank {want}", cfg.ranks),
                        );
                    }
                    if want > 0 && cfg.ranks.iter().any(|t| *t == amount) {
                        obs.probe("balance_exactly_at_threshold");
                    }
                    if amount != self.m.bal[u] {
                        obs.violation(P, "state_vs_model", format!("after={after},what=balance"), format!("user #{u}: balance {amount}, model {}", self.m.bal[u]));
                    }
                }
                (None, false) => {}
                _ => {
                    obs.violation(P, "state_vs_model", format!("after={after},what=user_account"), format!("user #{u}: account exists {} model {}", hdr.is_some(), self.m.prepared[u]));
                }
            }
        }
        obs.checked("supply_eq_sum_balances");
        if gt.supply() as u128 != sum {
            obs.violation(
                P,
                "supply_eq_sum_balances",
                format!("after={after}"),
                format!("supply {} != sum of user balances {sum} (total minted {}, gt_vault {})", gt.supply(), gt.total_minted(), gt.gt_vault()),
            );
        }
        obs.checked("total_minted_monotone");
        if gt.total_minted() < pre_total {
            obs.violation(P, "total_minted_monotone", format!("after={after}"), format!("total minted {} -> {}", pre_total, gt.total_minted()));
        }
        // cost0 * grow^k with k = floor(total / step): recomputed from scratch from the decoded total
        obs.checked("cost_schedule");
        let k = gt.total_minted() / cfg.grow_step;
        let want_cost = if k == self.m.k { Some(self.m.cost) } else { None };
        if gt.grow_steps() != k || (want_cost.is_some() && Some(gt.minting_cost()) != want_cost) {
            obs.violation(
                P,
                "cost_schedule",
                format!("after={after}"),
                format!(
                    "total minted {} step {} => k {k}; stored grow_steps {} cost {}; expected cost {:?} (cost0 {} grow {})",
                    gt.total_minted(),
                    cfg.grow_step,
                    gt.grow_steps(),
                    gt.minting_cost(),
                    want_cost,
                    cfg.cost0,
                    cfg.grow_factor
                ),
            );
        }
        obs.checked("state_vs_model");
        if gt.supply() != self.m.supply || gt.total_minted() != self.m.total || gt.gt_vault() != self.m.gt_vault || gt.exchange_time_window() != self.m.window {
            obs.violation(
                P,
                "state_vs_model",
                format!("after={after},what=gt_header"),
                format!(
                    "supply {} total {} gt_vault {} window {} vs model supply {} total {} gt_vault {} window {}",
                    gt.supply(),
                    gt.total_minted(),
                    gt.gt_vault(),
                    gt.exchange_time_window(),
                    self.m.supply,
                    self.m.total,
                    self.m.gt_vault,
                    self.m.window
                ),
            );
        }
        if let Some(sdk) = read_pod::<SdkStore>(&self.w, &self.d.store) {
            if sdk.gt.cumulative_inv_cost_factor != self.m.cum_inv || sdk.gt.last_cumulative_inv_cost_factor_ts != self.m.cum_ts {
                obs.violation(
                    P,
                    "state_vs_model",
                    format!("after={after},what=cumulative_inv_cost"),
                    format!(
                        "cumulative inverse cost {} @ {} vs model {} @ {}",
                        sdk.gt.cumulative_inv_cost_factor, sdk.gt.last_cumulative_inv_cost_factor_ts, self.m.cum_inv, self.m.cum_ts
                    ),
                );
            }
        }
        for (i, v) in self.m.vaults.iter().enumerate() {
            let cv = read_pod::<GtExchangeVault>(&self.w, &v.key);
            let ok = matches!(&cv, Some(c) if c.amount() == v.amount && c.is_confirmed() == v.confirmed && c.time_window_index() == v.index && c.time_window() == v.window as i64);
            if !ok {
                obs.violation(
                    P,
                    "state_vs_model",
                    format!("after={after},what=vault"),
                    format!("vault #{i}: chain {:?} vs model {v:?}", cv.map(|c| (c.amount(), c.is_confirmed(), c.time_window_index(), c.time_window()))),
                );
            }
        }
        for (i, e) in self.m.exchanges.iter().enumerate() {
            let ce = read_pod::<GtExchange>(&self.w, &e.key);
            let ok = matches!(&ce, Some(c) if c.amount() == e.amount && *c.owner() == self.a.wallets[e.user] && *c.vault() == self.m.vaults[e.vault].key);
            if !ok {
                obs.violation(P, "state_vs_model", format!("after={after},what=exchange"), format!("exchange #{i}: chain {:?} vs model {e:?}", ce.map(|c| c.amount())));
            }
        }
        Some(gt.total_minted())
    }

    /// What-if on forks: the same total minted in one piece vs in several pieces over two users.
    fn split_probe(&self, user: usize, amount: u64, by: usize, parts: u8, other: usize, obs: &mut Obs) {
        let parts = parts.clamp(2, 5) as u64;
        if amount < parts || !self.m.prepared[other] || !self.m.prepared[user] {
            return;
        }
        let read = |w: &World| read_pod::<Store>(w, &self.d.store).map(|s| (s.gt().total_minted(), s.gt().grow_steps(), s.gt().minting_cost(), s.gt().supply()));
        let mut a = self.w.clone();
        let oa = a.process(mint_ix(&self.d, &self.a.by[by], &self.a.user_pdas[user], amount));
        let mut b = self.w.clone();
        // uneven deterministic partition
        let mut left = amount;
        let mut all_ok = true;
        for i in 0..parts {
            let piece = if i + 1 == parts { left } else { (left / (2 * (parts - i))).max(1) };
            left -= piece;
            let target = if i % 2 == 0 { user } else { other };
            let ob = b.process(mint_ix(&self.d, &self.a.by[by], &self.a.user_pdas[target], piece));
            all_ok &= ob.ok;
        }
        if oa.ok && all_ok {
            obs.checked("cost_independent_of_split");
            let (ra, rb) = (read(&a), read(&b));
            if ra != rb {
                obs.violation(
                    P,
                    "cost_independent_of_split",
                    format!("parts={parts}"),
                    format!("minting {amount} at once -> (total, steps, cost, supply) {ra:?}; in {parts} pieces over users #{user}/#{other} -> {rb:?}"),
                );
            }
            if let (Some(ra), Some(pre)) = (ra, read(&self.w)) {
                if ra.1 > pre.1 {
                    obs.probe("split_probe_crossed_grow_step");
                }
            }
        }
    }
}

fn mint_ix(d: &Dep, authority: &Pubkey, user_pda: &Pubkey, amount: u64) -> Instruction {
    store_ix(
        gmsol_store::accounts::MintGtReward { authority: *authority, store: d.store, user: *user_pda, event_authority: d.event_authority, program: gmsol_store::ID },
        gmsol_store::instruction::MintGtReward { amount },
    )
}

fn expect_ok(label: &str, out: TxOutcome) {
    assert!(out.ok, "fixture step `{label}` failed: {} {:?}", out.class(), out.error);
}

impl Scenario for GtSim {
    type Cfg = Cfg;
    type Step = Step;

    fn name(&self) -> &'static str {
        "gtsim"
    }

    fn generate(&self, seed: u64, run: u64, tier: Tier, _focus: &str) -> (Cfg, Vec<Step>) {
        let mut rng = Rng::derive(seed, run, "gt.cfg");
        let faults = run % 4 != 0;
        let n_users = rng.range(2, 6) as u8;
        let n_ranks = match rng.below(12) {
            0 => 0,
            1 => 15,
            2 => 1,
            _ => rng.range(2, 14),
        } as usize;
        let scale = *rng.pick(&[1u64, 10, 1000, 1_000_000, 1_000_000_000]);
        let mut ranks = vec![];
        let mut cur = if faults && rng.chance(1, 30) { 0 } else { rng.range(1, 5 * scale) };
        for _ in 0..n_ranks {
            ranks.push(cur);
            cur += if rng.chance(1, 5) { 1 } else { rng.range(1, 10 * scale) };
        }
        // the grow step is tied to the scale of the thresholds so that threshold-sized mints cross 0..~100 steps
        let grow_step = match rng.below(10) {
            0 if scale <= 10 => 1,
            1 if scale <= 10 => rng.range(2, 10),
            0..=6 => rng.range(1, 20) * scale,
            7 => 100_000 * scale.min(1000),
            8 => (scale / 10).max(1) * rng.range(1, 9),
            _ => rng.log_u64(1 << 62).max(scale),
        };
        let grow_factor = match rng.below(10) {
            0 => UNIT,
            1 => UNIT + UNIT / 100,
            2 => 2 * UNIT,
            3 => UNIT - UNIT / 10, // decaying cost
            4 => rng.range128(0, UNIT),
            5 => UNIT + 1,
            _ => UNIT + rng.log_u128(UNIT),
        };
        let cost0 = match rng.below(10) {
            0 => 0,
            1 => 1,
            2 => UNIT / 20, // $0.05
            3 => u128::MAX / 3,
            _ => rng.log_u128(UNIT * 1_000_000),
        };
        let window = match rng.below(10) {
            0..=2 => DEFAULT_WINDOW,
            3 => 1,
            4 => 2,
            5 => rng.range(3, 120) as u32,
            6 => 3600,
            7 => 3 * DEFAULT_WINDOW,
            _ => rng.log_u64(30 * 86400) as u32,
        }
        .max(1);
        let cfg = Cfg {
            n_users,
            n_prepared: if faults && rng.chance(1, 4) { n_users - 1 } else { n_users },
            decimals: rng.range(0, 9) as u8,
            cost0,
            grow_factor,
            grow_step,
            ranks,
            window,
            faults,
        };
        let mut rng = Rng::derive(seed, run, "gt.plan");
        let n_steps = match rng.below(20) {
            0..=11 => rng.range(5, 40),
            12..=17 => rng.range(40, 90),
            _ => match tier {
                Tier::Quick => rng.range(90, 160),
                Tier::Thorough => rng.range(90, 400),
            },
        } as usize;
        let nu = n_users as u64;
        let mut steps: Vec<Step> = vec![];
        // "typical" mint magnitude of this run
        let mag = (*rng.pick(&[grow_step / 3 + 1, grow_step, grow_step.saturating_mul(3), scale, scale.saturating_mul(50)])).min(grow_step.saturating_mul(200));
        // generation-time shadow (biasing only): is there a vault for the current window, is the store outdated,
        // how many users hold something, is a protocol (prepare -> request -> boundary -> confirm -> close) in flight
        let mut vault_ready = false;
        let mut outdated = false;
        let mut minted = false;
        let mut queue: Vec<Step> = vec![];
        while steps.len() < n_steps {
            let by_good = |rng: &mut Rng| if rng.bool() { 0u8 } else { 3 };
            let by = |rng: &mut Rng| -> u8 {
                if faults && rng.chance(1, 8) {
                    rng.range(1, 2) as u8
                } else {
                    by_good(rng)
                }
            };
            let mint_amt = |rng: &mut Rng| -> MintAmt {
                match rng.below(20) {
                    0..=7 => MintAmt::Abs(rng.range(1, mag.max(1))),
                    8..=11 if !cfg.ranks.is_empty() => MintAmt::ToThreshold { idx: rng.below(15) as u8, off: rng.range_i64(-1, 1) as i8 },
                    12..=15 => MintAmt::ToStep { n: if rng.chance(3, 4) { 0 } else { rng.range(1, 40) as u16 }, off: rng.range_i64(-1, 1) as i8 },
                    16 => MintAmt::Abs(rng.log_u64(u64::MAX)),
                    17 if faults => MintAmt::Abs(*rng.pick(&[0u64, 1, u64::MAX, u64::MAX / 2])),
                    _ => MintAmt::Abs(rng.log_u64(mag.max(2))),
                }
            };
            let burn_amt = |rng: &mut Rng| -> BurnAmt {
                match rng.below(10) {
                    0..=2 => BurnAmt::Abs(rng.range(0, mag.max(1))),
                    3..=4 => BurnAmt::All,
                    5..=7 if !cfg.ranks.is_empty() => BurnAmt::DownToThreshold { idx: rng.below(15) as u8, off: rng.range_i64(-1, 1) as i8 },
                    8 if faults => BurnAmt::OverBy(rng.range(1, 3) as u8),
                    _ => BurnAmt::Abs(rng.log_u64(mag.max(2))),
                }
            };
            // an in-flight exchange protocol is continued with probability 1/2 per step, so that other traffic
            // (and faults) lands between its stages
            let st = if !queue.is_empty() && rng.chance(1, 2) {
                queue.remove(0)
            } else if outdated && rng.chance(1, 3) {
                Step::FixRestart
            } else {
                match rng.below(100) {
                    0..=27 => {
                        let split = if rng.chance(1, 3) { Some((rng.range(2, 5) as u8, rng.below(nu) as u8)) } else { None };
                        Step::Mint { user: rng.below(nu) as u8, amount: mint_amt(&mut rng), by: by(&mut rng), split }
                    }
                    28..=43 => {
                        if !vault_ready && rng.chance(3, 4) {
                            Step::PrepareVault { index_off: 0, payer: rng.below(nu) as u8 }
                        } else {
                            let vault = if rng.chance(3, 4) || !faults { VaultSel::Current } else { VaultSel::Known(rng.below(8) as u8) };
                            let signer = if faults && rng.chance(1, 10) { Some(rng.below(nu) as u8) } else { None };
                            Step::Request { user: rng.below(nu) as u8, signer, amount: burn_amt(&mut rng), vault }
                        }
                    }
                    44..=55 if queue.is_empty() && minted => {
                        // whole protocol: prepare, (mint,) request(s), cross the boundary, confirm, close
                        let u = rng.below(nu) as u8;
                        queue.push(Step::PrepareVault { index_off: 0, payer: u });
                        if rng.bool() {
                            queue.push(Step::Mint { user: u, amount: mint_amt(&mut rng), by: by_good(&mut rng), split: None });
                        }
                        for _ in 0..rng.range(1, 3) {
                            let who = if rng.chance(2, 3) { u } else { rng.below(nu) as u8 };
                            queue.push(Step::Request { user: who, signer: None, amount: burn_amt(&mut rng), vault: VaultSel::Current });
                        }
                        match rng.below(4) {
                            0 => {
                                // confirm attempted just before the boundary, then after it
                                queue.push(Step::ToBoundary { off: -1 });
                                queue.push(Step::Confirm { vault: 0, by: by_good(&mut rng) });
                                queue.push(Step::Advance { secs: 1 });
                            }
                            1 => queue.push(Step::ToBoundary { off: 0 }),
                            2 => queue.push(Step::ToBoundary { off: rng.range_i64(0, 2) as i8 }),
                            _ => queue.push(Step::Advance { secs: rng.range(window as u64, 2 * window as u64) as i64 }),
                        }
                        if faults && rng.chance(1, 3) {
                            // a late (stale) request into the vault that is about to be confirmed
                            queue.push(Step::Request { user: u, signer: None, amount: burn_amt(&mut rng), vault: VaultSel::Known(0) });
                        }
                        queue.push(Step::Confirm { vault: 0, by: by(&mut rng) });
                        if rng.chance(1, 4) {
                            queue.push(Step::Confirm { vault: 0, by: by_good(&mut rng) }); // duplicate
                        }
                        for k in 0..rng.range(0, 2) {
                            queue.push(Step::Close { exchange: k as u8, by: by(&mut rng) });
                        }
                        queue.remove(0)
                    }
                    44..=51 => Step::PrepareVault { index_off: if faults && rng.chance(1, 3) { rng.range_i64(-2, 2) as i8 } else { 0 }, payer: rng.below(nu) as u8 },
                    52..=61 => Step::Confirm { vault: rng.below(4) as u8, by: by(&mut rng) },
                    62..=69 => Step::Close { exchange: rng.below(6) as u8, by: by(&mut rng) },
                    70..=71 => Step::UpdateCumInv { by: by(&mut rng) },
                    72..=81 => Step::ToBoundary { off: if rng.chance(1, 3) { 0 } else { rng.range_i64(-2, 2) as i8 } },
                    82..=92 => {
                        let secs = match rng.below(10) {
                            0..=4 => rng.range(1, window as u64) as i64,
                            5..=6 => rng.range(window as u64, 3 * window as u64) as i64,
                            7 => 0,
                            9 if faults && rng.chance(1, 4) => 1i64 << rng.range(34, 62),
                            _ => rng.range(1, 100) as i64,
                        };
                        Step::Advance { secs }
                    }
                    93..=94 => {
                        let w = match rng.below(6) {
                            0 => 1,
                            1 => DEFAULT_WINDOW,
                            2 if faults => 0,
                            _ => rng.log_u64(10 * 86400) as u32,
                        };
                        Step::SetWindow { window: w }
                    }
                    95..=96 if faults => Step::Restart,
                    97 if faults => Step::FixRestart,
                    _ => Step::Mint { user: rng.below(nu) as u8, amount: MintAmt::Abs(rng.range(1, mag.max(1))), by: by_good(&mut rng), split: None },
                }
            };
            match st {
                Step::PrepareVault { index_off: 0, .. } if !outdated => vault_ready = true,
                Step::Advance { .. } | Step::ToBoundary { .. } | Step::SetWindow { .. } => vault_ready = false,
                Step::Restart => outdated = true,
                Step::FixRestart => outdated = false,
                Step::Mint { by: 0 | 3, .. } if !outdated => minted = true,
                _ => {}
            }
            steps.push(st);
        }
        (cfg, steps)
    }

    fn execute(&self, cfg: &Cfg, steps: &[Step], obs: &mut Obs) {
        let (mut w, d) = base_world();
        let nu = cfg.n_users.max(1) as usize;
        // --- fixture: signers, users, GT initialisation, window
        let mut by = vec![];
        for i in 0..3 {
            let k = w.new_key(&format!("by{i}"));
            w.fund(&k, 10_000_000_000);
            by.push(k);
        }
        by.push(d.keeper);
        expect_ok("grant gc", w.process(grant_role_ix(&d, &by[0], "GT_CONTROLLER")));
        for role in ALL_ROLES {
            if *role != "GT_CONTROLLER" {
                expect_ok("grant other", w.process(grant_role_ix(&d, &by[1], role)));
            }
        }
        let mut wallets = vec![];
        for i in 0..nu {
            let k = w.new_key(&format!("wallet{i}"));
            w.fund(&k, 100_000_000_000);
            wallets.push(k);
        }
        let user_pdas: Vec<Pubkey> = wallets.iter().map(|o| user_pda(&d.store, o)).collect();
        let n_prep = (cfg.n_prepared as usize).min(nu);
        for u in 0..n_prep {
            expect_ok("prepare_user", w.process(prepare_user_ix(&d.store, &wallets[u], &user_pdas[u])));
        }
        if cfg.grow_step == 0 {
            return; // not a valid configuration (shrinker artefact)
        }
        let ranks: Vec<u64> = cfg.ranks.iter().copied().take(15).collect();
        let init = w.process(store_ix(
            gmsol_store::accounts::InitializeGt { authority: d.keeper, store: d.store, system_program: system_program::ID },
            gmsol_store::instruction::InitializeGt {
                decimals: cfg.decimals,
                initial_minting_cost: cfg.cost0,
                grow_factor: cfg.grow_factor,
                grow_step: cfg.grow_step,
                ranks: ranks.clone(),
            },
        ));
        if !init.ok {
            // unsorted thresholds after shrinking: nothing to simulate
            obs.outcome("keeper", "initialize_gt", &init.class());
            return;
        }
        let win_off = window_offset();
        let a = Actors { by, has_gc: [true, false, false, true], wallets, user_pdas };
        let m = Model {
            prepared: (0..nu).map(|u| u < n_prep).collect(),
            touched: vec![false; nu],
            bal: vec![0; nu],
            supply: 0,
            total: 0,
            k: 0,
            cost: cfg.cost0,
            gt_vault: 0,
            cum_inv: 0,
            cum_ts: 0,
            window: DEFAULT_WINDOW,
            vaults: vec![],
            exchanges: vec![],
            outdated: false,
        };
        let mut run = Run { w, d, a, m, cfg, win_off };
        if cfg.window != DEFAULT_WINDOW && cfg.window != 0 {
            run.set_window(cfg.window, obs);
        }
        let mut pre_total = 0u64;
        if run.check_invariants(obs, "fixture", 0).is_none() || obs.should_stop() {
            return;
        }
        for (i, st) in steps.iter().enumerate() {
            obs.set_step(i);
            match *st {
                Step::Advance { secs } => {
                    // Solana clamps Clock.unix_timestamp to be non-decreasing: never step backwards
                    let secs = secs.max(0);
                    let before = run.now();
                    let t = before.saturating_add(secs).max(0);
                    run.w.clock.unix_timestamp = t;
                    run.w.clock.slot += 1 + (secs.max(0) as u64 / 2).min(1 << 40);
                    obs.sim_seconds += secs.max(0) as u64;
                    match secs {
                        0 => obs.fault("clock_stall"),
                        x if x >= 1 << 34 => obs.fault("clock_extreme_jump"),
                        x if x >= run.m.window as i64 => obs.fault("clock_jump_over_window"),
                        _ => {}
                    }
                    obs.event(|| format!("clock {before} -> {t}"));
                    obs.event_hash(&[t as u64]);
                    continue;
                }
                Step::ToBoundary { off } => {
                    let before = run.now();
                    let w = run.m.window as i64;
                    let next = (before / w).saturating_add(1).saturating_mul(w);
                    let t = next.saturating_add(off as i64).max(before);
                    run.w.clock.unix_timestamp = t;
                    run.w.clock.slot += 1;
                    obs.sim_seconds += (t - before) as u64;
                    obs.probe(match off {
                        0 => "clock_exactly_at_boundary",
                        x if x < 0 => "clock_just_before_boundary",
                        _ => "clock_just_after_boundary",
                    });
                    obs.event(|| format!("clock {before} -> {t} (boundary {next} {off:+})"));
                    obs.event_hash(&[t as u64]);
                    continue;
                }
                Step::SetWindow { window } => {
                    run.set_window(window, obs);
                    if obs.should_stop() {
                        return;
                    }
                    continue;
                }
                Step::Restart => {
                    run.w.last_restart_slot = run.w.clock.slot;
                    run.w.clock.slot += 10;
                    run.m.outdated = true;
                    obs.fault("cluster_restart");
                    obs.event(|| "cluster restart".to_string());
                    continue;
                }
                _ => {}
            }
            let Some(tx) = run.resolve(st, obs) else {
                obs.outcome("none", st.name(), "noop");
                continue;
            };
            if let (Step::Mint { split: Some((parts, other)), .. }, Tx::Mint { user, amount, by }) = (st, &tx) {
                if run.a.has_gc[*by] {
                    run.split_probe(*user, *amount, *by, *parts, *other as usize % nu, obs);
                    if obs.should_stop() {
                        return;
                    }
                }
            }
            let verdict = run.judge(&tx);
            // pre-state of the vaults for the window oracles
            let pre_v: Vec<Option<(u64, bool)>> = run.m.vaults.iter().map(|v| read_pod::<GtExchangeVault>(&run.w, &v.key).map(|c| (c.amount(), c.is_confirmed()))).collect();
            let ix = run.build(&tx);
            let out = run.w.process_tx(&[ix], &TxOpts::default());
            let class = out.class();
            let now = run.now();
            obs.event(|| format!("t={now} {tx:?} model={verdict:?} -> {class}"));
            let role = match &tx {
                Tx::Mint { by, .. } | Tx::Confirm { by, .. } | Tx::Close { by, .. } | Tx::UpdateCumInv { by } => ["gt_controller", "other_roles", "stranger", "keeper"][*by],
                Tx::Request { signer, user, .. } => {
                    if signer == user {
                        "user"
                    } else {
                        "twin"
                    }
                }
                Tx::PrepareVault { .. } => "user",
                Tx::FixRestart => "admin",
            };
            obs.outcome(role, st.name(), &class);
            if let Err(r) = verdict {
                obs.probe(&format!("rejected:{r}"));
                match r {
                    "not_gt_controller" | "foreign_user_account" => obs.fault("byzantine_signer"),
                    "not_current_window" | "vault_confirmed" => obs.fault("stale_request"),
                    "window_not_passed" => obs.fault("early_confirm"),
                    "already_confirmed" => obs.fault("duplicate_tx"),
                    "store_outdated" => obs.fault("request_after_restart"),
                    _ => {}
                }
            }
            // --- window oracles straight from the chain
            for (vi, v) in run.m.vaults.iter().enumerate() {
                let Some(Some((a0, c0))) = pre_v.get(vi) else { continue };
                let Some(c) = read_pod::<GtExchangeVault>(&run.w, &v.key) else { continue };
                let cur = now / v.window as i64;
                if c.amount() != *a0 {
                    obs.checked("deposit_only_in_current_window");
                    if cur != v.index || *c0 {
                        obs.violation(
                            P,
                            "deposit_only_in_current_window",
                            format!("confirmed_before={c0},late={}", cur > v.index),
                            format!("vault #{vi} (index {}, window {}s) amount {a0} -> {} at t={now} (window index now {cur})", v.index, v.window, c.amount()),
                        );
                    }
                }
                if c.is_confirmed() && !*c0 {
                    obs.checked("confirm_only_after_window");
                    if cur <= v.index {
                        obs.violation(
                            P,
                            "confirm_only_after_window",
                            format!("op={}", st.name()),
                            format!("vault #{vi} (index {}, window {}s) confirmed at t={now}, window index now {cur}", v.index, v.window),
                        );
                    }
                }
            }
            obs.checked("tx_vs_model");
            match (&verdict, out.ok) {
                (Err(r), true) => {
                    obs.violation(P, "forbidden_tx_landed", format!("op={},reason={r}", st.name()), format!("{tx:?} must be rejected ({r}) but succeeded at t={now}"));
                }
                (Ok(()), false) => {
                    obs.violation(
                        P,
                        "allowed_tx_rejected",
                        format!("op={},err={class}", st.name()),
                        format!("{tx:?} is well-formed and allowed but failed at t={now}: {class} {:?} {:?}", out.error, out.panic),
                    );
                }
                _ => {}
            }
            if obs.should_stop() {
                return;
            }
            if out.ok && verdict.is_ok() {
                run.apply(&tx);
                match &tx {
                    Tx::Mint { amount, .. } if *amount > 0 => {
                        if run.m.k > 0 {
                            obs.probe("cost_grown");
                        }
                    }
                    Tx::Confirm { vault, .. } => {
                        if run.m.vaults[*vault].amount > 0 {
                            obs.probe("confirmed_nonempty_vault");
                        }
                    }
                    Tx::Request { amount, .. } if *amount > 0 => obs.probe("burned"),
                    _ => {}
                }
            }
            match run.check_invariants(obs, st.name(), pre_total) {
                Some(t) => pre_total = t,
                None => return,
            }
            if obs.should_stop() {
                return;
            }
            let m = &run.m;
            let mut words = vec![hash_str(st.name()), out.ok as u64, m.supply, m.total, m.k, m.cost as u64, (m.cost >> 64) as u64, m.gt_vault, now as u64];
            words.extend(m.bal.iter().copied());
            obs.event_hash(&words);
            let ranks: u64 = m.bal.iter().fold(0u64, |acc, b| acc.wrapping_mul(17).wrapping_add(Model::rank_of(cfg, *b) as u64));
            obs.fingerprint(&[
                ranks,
                m.k.min(40),
                m.vaults.iter().filter(|v| v.confirmed).count() as u64,
                m.vaults.len() as u64,
                m.exchanges.len() as u64,
                m.outdated as u64,
            ]);
        }
    }

    fn simplify_step(&self, s: &Step) -> Vec<Step> {
        let mut out = vec![];
        match *s {
            Step::Mint { user, amount, by, split } => {
                if split.is_some() {
                    out.push(Step::Mint { user, amount, by, split: None });
                }
                if let MintAmt::Abs(x) = amount {
                    if x > 1 {
                        out.push(Step::Mint { user, amount: MintAmt::Abs(x / 2), by, split });
                        out.push(Step::Mint { user, amount: MintAmt::Abs(1), by, split });
                    }
                }
                if by != 3 {
                    out.push(Step::Mint { user, amount, by: 3, split });
                }
            }
            Step::Request { user, signer, amount, vault } => {
                if signer.is_some() {
                    out.push(Step::Request { user, signer: None, amount, vault });
                }
                if let BurnAmt::Abs(x) = amount {
                    if x > 1 {
                        out.push(Step::Request { user, signer, amount: BurnAmt::Abs(x / 2), vault });
                    }
                }
                if vault != VaultSel::Current {
                    out.push(Step::Request { user, signer, amount, vault: VaultSel::Current });
                }
            }
            Step::Advance { secs } if secs > 1 => out.push(Step::Advance { secs: secs / 2 }),
            Step::Confirm { vault, by } if by != 3 => out.push(Step::Confirm { vault, by: 3 }),
            Step::Close { exchange, by } if by != 3 => out.push(Step::Close { exchange, by: 3 }),
            _ => {}
        }
        out
    }

    fn simplify_cfg(&self, cfg: &Cfg) -> Vec<Cfg> {
        let mut out = vec![];
        if cfg.window != DEFAULT_WINDOW {
            out.push(Cfg { window: DEFAULT_WINDOW, ..cfg.clone() });
        }
        if cfg.n_prepared != cfg.n_users {
            out.push(Cfg { n_prepared: cfg.n_users, ..cfg.clone() });
        }
        if cfg.ranks.len() > 1 {
            let mut r = cfg.ranks.clone();
            r.pop();
            out.push(Cfg { ranks: r, ..cfg.clone() });
        }
        if cfg.grow_factor != UNIT + UNIT / 100 {
            out.push(Cfg { grow_factor: UNIT + UNIT / 100, ..cfg.clone() });
        }
        out
    }

    fn components(&self) -> Components {
        Components {
            real: vec![
                "gmsol_store program entrypoint: initialize_gt, mint_gt_reward, request_gt_exchange, prepare_gt_exchange_vault, confirm_gt_exchange_vault_v2, close_gt_exchange, update_gt_cumulative_inv_cost_factor, gt_set_exchange_time_window, update_last_restarted_slot, prepare_user, grant_role (programs/store/src/instructions/gt.rs, states/gt.rs, states/user.rs)".into(),
                "zero-copy decoding of Store (GtState getters), UserHeader (UserGtState), GtExchangeVault, GtExchange".into(),
            ],
            stub: vec![
                "chainsim runtime (accounts db, loader, CPI, sysvars incl. clock and last-restart-slot, system program)".into(),
                "exchange time window other than the default 86400 s: `gt_set_exchange_time_window` is compiled out without the `test-only` feature (returns Unimplemented), so after the real instruction is rejected the `exchange_time_window` field of the store account is overwritten in place (offset taken from the SDK's generated layout)".into(),
                "reference model: balances, supply, total minted, iterated floor cost schedule, cumulative inverse cost, vaults (index, window, amount, confirmed), exchanges".into(),
            ],
        }
    }

    fn rule(&self) -> String {
        "one run = 2-6 users, a rank table of 0-15 thresholds, cost0 / grow factor (growing, flat, decaying, 2x) / grow step (1 .. 2^62), an exchange window of 1 s .. 30 d and 5-400 steps: mint_gt_reward (random, to a threshold -1/0/+1, to a grow-step boundary -1/0/+1, several steps at once, extreme amounts; with a fork probe that mints the same total in 2-5 pieces over two users), request_gt_exchange (random, all, down to a threshold -1/0/+1, over balance; current vault or any earlier vault), prepare vault (current / neighbouring index), confirm, close, clock advances, jumps to a window boundary -2..+2 s, stalls; the fault batch adds signers without GT_CONTROLLER, foreign signers, extreme clock jumps, window changes, cluster restarts. distinct_nontrivial counts trigrams of (signer role, instruction, outcome class) plus fingerprints (rank vector, grow steps, vault/exchange counts, outdated flag)".into()
    }
}

impl<'a> Run<'a> {
    /// Try the real instruction; when the build compiles it out (Unimplemented), forge the field.
    fn set_window(&mut self, window: u32, obs: &mut Obs) {
        let ix = store_ix(
            gmsol_store::accounts::ConfigureGt { authority: self.a.by[0], store: self.d.store },
            gmsol_store::instruction::GtSetExchangeTimeWindow { window },
        );
        let out = self.w.process(ix);
        obs.outcome("gt_controller", "gt_set_exchange_time_window", &out.class());
        if out.ok {
            if window == 0 {
                obs.violation(P, "forbidden_tx_landed", "op=gt_set_exchange_time_window,reason=zero_window".into(), "window 0 accepted".into());
                return;
            }
            self.m.window = window;
        } else if window != 0 {
            let acc = self.w.accounts.get_mut(&self.d.store).expect("store");
            acc.data[self.win_off..self.win_off + 4].copy_from_slice(&window.to_le_bytes());
            self.m.window = window;
            obs.probe("window_forged");
        }
        let w = window;
        obs.event(|| format!("exchange window := {w}"));
        obs.event_hash(&[window as u64]);
    }
}
