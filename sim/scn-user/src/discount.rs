//! C31 — order-fee discount on every store state reachable by keeper histories: program function vs big-integer
//! reference vs SDK copy, decoded from the same account bytes.

use std::collections::BTreeSet;

use chainsim::deploy::{read_pod, store_ix, Dep};
use chainsim::rt::{TxOpts, World};
use gmsol_programs::gmsol_store::accounts::Store as SdkStore;
use gmsol_store::states::Store;
use serde::{Deserialize, Serialize};
use simcore::big::bu;
use simcore::rng::hash_str;
use simcore::{Components, Obs, Rng, Scenario, Tier};
use solana_program::{instruction::Instruction, pubkey::Pubkey, system_program};

use crate::common::{base_world, grant_role_ix, UNIT};

const P: &str = "C31";

pub const ROLES: &[&str] = &["MARKET_KEEPER", "CONFIG_KEEPER", "GT_CONTROLLER"];
const MK: usize = 0;
const CK: usize = 1;
const GC: usize = 2;

/// Actors: 0 = market keeper only, 1 = config keeper only, 2 = GT controller + every role that is *not* market /
/// config keeper, 3 = stranger without any role, 4 = the fixture's all-role keeper.
const N_ACTORS: usize = 5;

#[derive(Clone, Debug, Serialize, Deserialize)]
pub struct Cfg {
    pub faults: bool,
}

#[derive(Clone, Copy, Debug, Serialize, Deserialize, PartialEq, Eq)]
pub enum Via {
    /// `insert_order_fee_discount_for_referred_user` (MARKET_KEEPER)
    Market,
    /// `insert_factor("order_fee_discount_for_referred_user")` (CONFIG_KEEPER)
    Config,
}

#[derive(Clone, Debug, Serialize, Deserialize, PartialEq, Eq)]
pub enum Step {
    InitGt {
        by: u8,
        decimals: u8,
        #[serde(with = "crate::common::u128_str")]
        cost: u128,
        #[serde(with = "crate::common::u128_str")]
        grow_factor: u128,
        grow_step: u64,
        ranks: Vec<u64>,
    },
    SetFactors {
        by: u8,
        #[serde(with = "crate::common::vec_u128_str")]
        factors: Vec<u128>,
    },
    SetReferred {
        by: u8,
        via: Via,
        #[serde(with = "crate::common::u128_str")]
        factor: u128,
    },
    /// distractor: referral *reward* factors live next to the discount table
    SetRewardFactors {
        by: u8,
        #[serde(with = "crate::common::vec_u128_str")]
        factors: Vec<u128>,
    },
    /// admin grants the role if the actor lacks it, revokes it otherwise
    ToggleRole { actor: u8, role: u8 },
}

impl Step {
    fn name(&self) -> &'static str {
        match self {
            Step::InitGt { .. } => "initialize_gt",
            Step::SetFactors { .. } => "gt_set_order_fee_discount_factors",
            Step::SetReferred { via: Via::Market, .. } => "insert_order_fee_discount_for_referred_user",
            Step::SetReferred { via: Via::Config, .. } => "insert_factor",
            Step::SetRewardFactors { .. } => "gt_set_referral_reward_factors",
            Step::ToggleRole { .. } => "toggle_role",
        }
    }
}

struct Model {
    /// `Some(max_rank)` once GT is initialised
    max_rank: Option<usize>,
    table: [u128; 16],
    referred: u128,
    roles: Vec<BTreeSet<usize>>,
}

impl Model {
    fn has(&self, actor: usize, role: usize) -> bool {
        self.roles[actor].contains(&role)
    }

    fn judge(&self, s: &Step) -> Result<(), &'static str> {
        match s {
            Step::InitGt { by, grow_step, ranks, .. } => {
                if !self.has(*by as usize % N_ACTORS, MK) {
                    return Err("not_market_keeper");
                }
                if self.max_rank.is_some() {
                    return Err("already_initialized");
                }
                if *grow_step == 0 {
                    return Err("zero_grow_step");
                }
                let r = &ranks[..ranks.len().min(15)];
                if !r.windows(2).all(|w| w[0] < w[1]) {
                    return Err("ranks_not_strictly_sorted");
                }
                Ok(())
            }
            Step::SetFactors { by, factors } => {
                if !self.has(*by as usize % N_ACTORS, MK) {
                    return Err("not_market_keeper");
                }
                let Some(max) = self.max_rank else { return Err("gt_not_initialized") };
                if factors.len() != max + 1 {
                    return Err("wrong_length");
                }
                if factors.iter().any(|f| *f > UNIT) {
                    return Err("factor_above_100pct");
                }
                Ok(())
            }
            Step::SetReferred { by, via, .. } => {
                let role = match via {
                    Via::Market => MK,
                    Via::Config => CK,
                };
                if !self.has(*by as usize % N_ACTORS, role) {
                    return Err("missing_role");
                }
                Ok(())
            }
            Step::SetRewardFactors { by, factors } => {
                if !self.has(*by as usize % N_ACTORS, GC) {
                    return Err("not_gt_controller");
                }
                let Some(max) = self.max_rank else { return Err("gt_not_initialized") };
                if factors.len() != max + 1 {
                    return Err("wrong_length");
                }
                if !factors.windows(2).all(|w| w[0] <= w[1]) {
                    return Err("not_sorted");
                }
                Ok(())
            }
            Step::ToggleRole { .. } => Ok(()),
        }
    }

    fn apply(&mut self, s: &Step) {
        match s {
            Step::InitGt { ranks, .. } => self.max_rank = Some(ranks.len().min(15)),
            Step::SetFactors { factors, .. } => self.table[..factors.len()].copy_from_slice(factors),
            Step::SetReferred { factor, .. } => self.referred = *factor,
            Step::SetRewardFactors { .. } => {}
            Step::ToggleRole { actor, role } => {
                let (a, r) = (*actor as usize % N_ACTORS, *role as usize % ROLES.len());
                if !self.roles[a].remove(&r) {
                    self.roles[a].insert(r);
                }
            }
        }
    }
}

pub struct DiscountSim;

fn build(s: &Step, d: &Dep, actors: &[Pubkey], m: &Model) -> Instruction {
    let who = |by: &u8| actors[*by as usize % N_ACTORS];
    match s {
        Step::InitGt { by, decimals, cost, grow_factor, grow_step, ranks } => store_ix(
            gmsol_store::accounts::InitializeGt { authority: who(by), store: d.store, system_program: system_program::ID },
            gmsol_store::instruction::InitializeGt {
                decimals: *decimals,
                initial_minting_cost: *cost,
                grow_factor: *grow_factor,
                grow_step: *grow_step,
                ranks: ranks.clone(),
            },
        ),
        Step::SetFactors { by, factors } => store_ix(
            gmsol_store::accounts::ConfigureGt { authority: who(by), store: d.store },
            gmsol_store::instruction::GtSetOrderFeeDiscountFactors { factors: factors.clone() },
        ),
        Step::SetRewardFactors { by, factors } => store_ix(
            gmsol_store::accounts::ConfigureGt { authority: who(by), store: d.store },
            gmsol_store::instruction::GtSetReferralRewardFactors { factors: factors.clone() },
        ),
        Step::SetReferred { by, via: Via::Market, factor } => store_ix(
            gmsol_store::accounts::InsertConfig { authority: who(by), store: d.store },
            gmsol_store::instruction::InsertOrderFeeDiscountForReferredUser { factor: *factor },
        ),
        Step::SetReferred { by, via: Via::Config, factor } => store_ix(
            gmsol_store::accounts::InsertConfig { authority: who(by), store: d.store },
            gmsol_store::instruction::InsertFactor { key: "order_fee_discount_for_referred_user".into(), factor: *factor },
        ),
        Step::ToggleRole { actor, role } => {
            let (a, r) = (*actor as usize % N_ACTORS, *role as usize % ROLES.len());
            if m.has(a, r) {
                store_ix(
                    gmsol_store::accounts::RevokeRole { authority: d.admin, store: d.store },
                    gmsol_store::instruction::RevokeRole { user: actors[a], role: ROLES[r].to_string() },
                )
            } else {
                grant_role_ix(d, &actors[a], ROLES[r])
            }
        }
    }
}

/// Evaluate the statement on the current store account for every rank and referral flag.
fn check_state(w: &World, d: &Dep, m: &Model, obs: &mut Obs, after: &str) {
    let Some(prog) = read_pod::<Store>(w, &d.store) else {
        obs.violation(P, "decode", "which=program".into(), "store account not decodable".into());
        return;
    };
    let Some(sdk) = read_pod::<SdkStore>(w, &d.store) else {
        obs.violation(P, "decode", "which=sdk".into(), "store account not decodable with the SDK type".into());
        return;
    };
    let max = m.max_rank.unwrap_or(0);
    // the stored configuration is what the keeper history says (failed attempts changed nothing)
    obs.checked("state_vs_model");
    if sdk.gt.max_rank != max as u64
        || sdk.gt.order_fee_discount_factors != m.table
        || sdk.factor.order_fee_discount_for_referred_user != m.referred
        || prog.gt().is_initialized() != m.max_rank.is_some()
    {
        obs.violation(
            P,
            "state_vs_model",
            format!("after={after}"),
            format!(
                "stored max_rank {} table {:?} referred {} vs model max_rank {max} table {:?} referred {}",
                sdk.gt.max_rank, sdk.gt.order_fee_discount_factors, sdk.factor.order_fee_discount_for_referred_user, m.table, m.referred
            ),
        );
        return;
    }
    let b = m.referred;
    if b > UNIT {
        obs.probe("referred_factor_above_100pct_stored");
    }
    if b == UNIT {
        obs.probe("referred_factor_exactly_100pct");
    }
    let mut ranks: Vec<u8> = (0..=(max as u8 + 1)).collect();
    for extra in [15u8, 16, 17, 255] {
        if !ranks.contains(&extra) {
            ranks.push(extra);
        }
    }
    for rank in ranks {
        let mut unreferred: Option<u128> = None;
        for flag in [false, true] {
            let p = prog.order_fee_discount_factor(rank, flag).ok();
            let s = sdk.order_fee_discount_factor(rank, flag).ok();
            obs.checked("sdk_agrees");
            if p != s {
                obs.violation(
                    P,
                    "sdk_agrees",
                    format!("referred={flag},above_max={}", rank as usize > max),
                    format!("rank {rank} (max {max}) referred {flag}: program {p:?} sdk {s:?}; table {:?} referred factor {b}", m.table),
                );
            }
            if rank as usize > max {
                obs.checked("rank_above_max_rejected");
                if p.is_some() {
                    obs.violation(
                        P,
                        "rank_above_max_rejected",
                        format!("referred={flag}"),
                        format!("rank {rank} > max rank {max} returned {p:?}"),
                    );
                }
                continue;
            }
            let a = m.table[rank as usize];
            if a == UNIT {
                obs.probe("rank_factor_exactly_100pct");
            }
            if let Some(dv) = p {
                obs.checked("range");
                if dv > UNIT {
                    obs.violation(P, "range", format!("referred={flag}"), format!("rank {rank} referred {flag}: discount {dv} > 100% (a={a}, b={b})"));
                }
            }
            if !flag {
                unreferred = p;
                obs.checked("unreferred_is_rank_discount");
                if p != Some(a) {
                    obs.violation(
                        P,
                        "unreferred_is_rank_discount",
                        format!("ok={}", p.is_some()),
                        format!("rank {rank} unreferred: got {p:?}, rank table entry {a}"),
                    );
                }
            } else if b <= UNIT {
                // 1 - (1-a)(1-b) = (b*U + a*(U-b)) / U, rounding of the single division: at most one unit
                let num = bu(b) * bu(UNIT) + bu(a) * bu(UNIT - b);
                let lo = &num / bu(UNIT);
                let hi = (&num + bu(UNIT - 1)) / bu(UNIT);
                obs.checked("referred_formula");
                let okv = p.map(|x| bu(x) == lo || bu(x) == hi).unwrap_or(false);
                if !okv {
                    obs.violation(
                        P,
                        "referred_formula",
                        format!("ok={}", p.is_some()),
                        format!("rank {rank} referred: got {p:?}, expected {lo}..={hi} (a={a}, b={b})"),
                    );
                }
                obs.checked("referred_ge_unreferred");
                if let (Some(r), Some(u)) = (p, unreferred) {
                    if r < u {
                        obs.violation(P, "referred_ge_unreferred", String::new(), format!("rank {rank}: referred {r} < unreferred {u} (a={a}, b={b})"));
                    }
                    if r > u {
                        obs.probe("referred_strictly_better");
                    }
                }
                if lo != hi {
                    obs.probe("rounding_matters");
                }
            } else if p.is_none() {
                // outside the statement's domain (referral discount above 100 %): the setter accepts it and the
                // computation then fails for every referred user
                obs.probe("referred_discount_unavailable_factor_above_100pct");
            }
        }
    }
}

fn special_factor(rng: &mut Rng, allow_bad: bool) -> u128 {
    match rng.below(if allow_bad { 14 } else { 11 }) {
        0 => 0,
        1 => 1,
        2 => UNIT - 1,
        3 => UNIT,
        4 => UNIT / 2,
        5 => UNIT / 10,
        6 => UNIT / 3 + 7,
        7..=8 => rng.range128(0, UNIT),
        9..=10 => rng.log_u128(UNIT),
        11 => UNIT + 1,
        12 => UNIT + rng.log_u128(u128::MAX - UNIT),
        _ => u128::MAX,
    }
}

impl Scenario for DiscountSim {
    type Cfg = Cfg;
    type Step = Step;

    fn name(&self) -> &'static str {
        "discountsim"
    }

    fn generate(&self, seed: u64, run: u64, tier: Tier, _focus: &str) -> (Cfg, Vec<Step>) {
        let cfg = Cfg { faults: run % 3 != 0 };
        let mut rng = Rng::derive(seed, run, "discount.plan");
        let n_steps = match rng.below(10) {
            0..=6 => rng.range(3, 25),
            7..=8 => rng.range(25, 60),
            _ => match tier {
                Tier::Quick => rng.range(60, 100),
                Tier::Thorough => rng.range(60, 250),
            },
        } as usize;
        // rank table of this run (number of thresholds = max rank)
        let n_ranks = match rng.below(10) {
            0 => 0,
            1 => 15,
            2 => rng.range(16, 20),
            _ => rng.range(1, 14),
        } as usize;
        let mut ranks: Vec<u64> = vec![];
        let mut cur = rng.range(0, 1000);
        for _ in 0..n_ranks {
            ranks.push(cur);
            cur += rng.range(1, 1_000_000);
        }
        let max = n_ranks.min(15);
        let mut steps = vec![];
        let init_at = if rng.chance(1, 6) { rng.range(1, 6) as usize } else { 0 };
        let mut inited = false;
        for i in 0..n_steps {
            let bad = cfg.faults && rng.chance(1, 4);
            let actor = |rng: &mut Rng, good: u8| -> u8 {
                if bad && rng.chance(1, 2) {
                    rng.below(N_ACTORS as u64) as u8
                } else if rng.chance(1, 3) {
                    4
                } else {
                    good
                }
            };
            let st = if i == init_at && !inited || (cfg.faults && rng.chance(1, 25)) {
                inited = inited || i == init_at;
                let mut r = ranks.clone();
                if bad && rng.chance(1, 3) && r.len() >= 2 {
                    let j = rng.below(r.len() as u64 - 1) as usize;
                    r[j + 1] = r[j]; // not strictly sorted
                }
                Step::InitGt {
                    by: actor(&mut rng, MK as u8),
                    decimals: rng.range(0, 9) as u8,
                    cost: rng.log_u128(UNIT * 1000),
                    grow_factor: UNIT + rng.log_u128(UNIT),
                    grow_step: if bad && rng.chance(1, 4) { 0 } else { rng.log_u64(1 << 40) },
                    ranks: r,
                }
            } else {
                match rng.below(20) {
                    0..=8 => {
                        let n = if bad && rng.chance(1, 3) { rng.range(0, 17) as usize } else { max + 1 };
                        let mut f: Vec<u128> = (0..n).map(|_| special_factor(&mut rng, false)).collect();
                        if rng.chance(1, 3) {
                            f.sort();
                        }
                        if bad && rng.chance(1, 3) && !f.is_empty() {
                            let j = rng.below(f.len() as u64) as usize;
                            f[j] = special_factor(&mut rng, true);
                        }
                        Step::SetFactors { by: actor(&mut rng, MK as u8), factors: f }
                    }
                    9..=15 => {
                        let via = if rng.bool() { Via::Market } else { Via::Config };
                        let good = if via == Via::Market { MK } else { CK } as u8;
                        let allow_bad = cfg.faults && rng.chance(1, 3);
                        Step::SetReferred { by: actor(&mut rng, good), via, factor: special_factor(&mut rng, allow_bad) }
                    }
                    16..=17 => {
                        let n = if bad && rng.chance(1, 3) { rng.range(0, 17) as usize } else { max + 1 };
                        let mut f: Vec<u128> = (0..n).map(|_| special_factor(&mut rng, true)).collect();
                        if !(bad && rng.chance(1, 2)) {
                            f.sort();
                        }
                        Step::SetRewardFactors { by: actor(&mut rng, GC as u8), factors: f }
                    }
                    _ => {
                        if cfg.faults {
                            Step::ToggleRole { actor: rng.below(4) as u8, role: rng.below(3) as u8 }
                        } else {
                            Step::SetReferred { by: MK as u8, via: Via::Market, factor: special_factor(&mut rng, false) }
                        }
                    }
                }
            };
            steps.push(st);
        }
        (cfg, steps)
    }

    fn execute(&self, _cfg: &Cfg, steps: &[Step], obs: &mut Obs) {
        let (mut w, d) = base_world();
        let mut actors = vec![];
        for i in 0..4 {
            let k = w.new_key(&format!("actor{i}"));
            w.fund(&k, 10_000_000_000);
            actors.push(k);
        }
        actors.push(d.keeper);
        let mut m = Model { max_rank: None, table: [0; 16], referred: 0, roles: vec![BTreeSet::new(); N_ACTORS] };
        m.roles[4] = [MK, CK, GC].into_iter().collect();
        let grant = |w: &mut World, a: usize, role: &str| {
            let out = w.process(grant_role_ix(&d, &actors[a], role));
            assert!(out.ok, "fixture grant failed: {}", out.class());
        };
        grant(&mut w, 0, "MARKET_KEEPER");
        m.roles[0].insert(MK);
        grant(&mut w, 1, "CONFIG_KEEPER");
        m.roles[1].insert(CK);
        for role in chainsim::deploy::ALL_ROLES {
            if *role != "MARKET_KEEPER" && *role != "CONFIG_KEEPER" {
                grant(&mut w, 2, role);
            }
        }
        m.roles[2].insert(GC);
        check_state(&w, &d, &m, obs, "deploy");
        if obs.should_stop() {
            return;
        }
        for (i, st) in steps.iter().enumerate() {
            obs.set_step(i);
            let verdict = m.judge(st);
            let ix = build(st, &d, &actors, &m);
            let signer_role = match st {
                Step::ToggleRole { .. } => "admin",
                Step::InitGt { by, .. } | Step::SetFactors { by, .. } | Step::SetReferred { by, .. } | Step::SetRewardFactors { by, .. } => {
                    ["market_keeper", "config_keeper", "other_roles", "stranger", "keeper"][*by as usize % N_ACTORS]
                }
            };
            let out = w.process_tx(&[ix], &TxOpts::default());
            let class = out.class();
            obs.event(|| format!("{st:?} model={verdict:?} -> {class}"));
            obs.outcome(signer_role, st.name(), &class);
            if let Err(r) = verdict {
                obs.probe(&format!("rejected:{r}"));
                match r {
                    "not_market_keeper" | "missing_role" | "not_gt_controller" => obs.fault("byzantine_signer"),
                    "already_initialized" => obs.fault("duplicate_tx"),
                    _ => obs.fault("misconfiguration"),
                }
            }
            obs.checked("tx_vs_model");
            match (&verdict, out.ok) {
                (Err(r), true) => {
                    obs.violation(P, "forbidden_tx_landed", format!("op={},reason={r}", st.name()), format!("{st:?} must be rejected ({r}) but succeeded"));
                }
                (Ok(()), false) => {
                    obs.violation(
                        P,
                        "allowed_tx_rejected",
                        format!("op={},err={class}", st.name()),
                        format!("{st:?} is well-formed but failed: {class} {:?}", out.error),
                    );
                }
                _ => {}
            }
            if obs.should_stop() {
                return;
            }
            if out.ok && verdict.is_ok() {
                m.apply(st);
            }
            check_state(&w, &d, &m, obs, st.name());
            if obs.should_stop() {
                return;
            }
            let mut words = vec![hash_str(st.name()), out.ok as u64, m.max_rank.map(|x| x as u64 + 1).unwrap_or(0), m.referred as u64, (m.referred >> 64) as u64];
            for f in m.table {
                words.push(f as u64 ^ (f >> 64) as u64);
            }
            obs.event_hash(&words);
            // coarse fingerprint: which special classes the configuration is in
            let cls = |f: u128| -> u64 {
                if f == 0 {
                    0
                } else if f == UNIT {
                    3
                } else if f > UNIT {
                    4
                } else if f < UNIT / 2 {
                    1
                } else {
                    2
                }
            };
            let mx = m.max_rank.unwrap_or(0);
            obs.fingerprint(&[
                m.max_rank.map(|x| x as u64 + 1).unwrap_or(0),
                cls(m.referred),
                m.table[..=mx].iter().map(|f| cls(*f)).fold(0, |a, c| a * 5 + c),
            ]);
            w.advance(1, 1);
            obs.sim_seconds += 1;
        }
    }

    fn simplify_step(&self, s: &Step) -> Vec<Step> {
        let mut out = vec![];
        match s {
            Step::SetFactors { by, factors } => {
                for (i, f) in factors.iter().enumerate() {
                    if *f != 0 {
                        let mut g = factors.clone();
                        g[i] = 0;
                        out.push(Step::SetFactors { by: *by, factors: g });
                    }
                }
                if *by != 4 {
                    out.push(Step::SetFactors { by: 4, factors: factors.clone() });
                }
            }
            Step::SetReferred { by, via, factor } => {
                if *factor != 0 {
                    out.push(Step::SetReferred { by: *by, via: *via, factor: factor / 2 });
                }
                if *by != 4 {
                    out.push(Step::SetReferred { by: 4, via: *via, factor: *factor });
                }
            }
            Step::InitGt { by, decimals, cost, grow_factor, grow_step, ranks } => {
                if !ranks.is_empty() {
                    let mut r = ranks.clone();
                    r.pop();
                    out.push(Step::InitGt { by: *by, decimals: *decimals, cost: *cost, grow_factor: *grow_factor, grow_step: *grow_step, ranks: r });
                }
            }
            _ => {}
        }
        out
    }

    fn components(&self) -> Components {
        Components {
            real: vec![
                "gmsol_store program entrypoint: initialize_gt, gt_set_order_fee_discount_factors, gt_set_referral_reward_factors, insert_order_fee_discount_for_referred_user, insert_factor, grant_role, revoke_role".into(),
                "gmsol_store::states::Store::order_fee_discount_factor on the zero-copy decoded store account (programs/store/src/states/store.rs, states/gt.rs)".into(),
                "gmsol_programs::gmsol_store::accounts::Store::order_fee_discount_factor (crates/programs/src/utils/store.rs) on the same account bytes".into(),
            ],
            stub: vec![
                "chainsim runtime (accounts db, loader, CPI, sysvars, system program)".into(),
                "reference: keeper-history model of (max rank, rank table, referred-user factor, role holders); 1-(1-a)(1-b) in BigUint".into(),
            ],
        }
    }

    fn rule(&self) -> String {
        "one run = one rank table (0-19 thresholds, i.e. max rank 0-15 incl. truncation) and a keeper history of 3-250 transactions: initialize_gt (also late, repeated, unsorted, zero grow step), order-fee discount tables (values 0, 1, 100%-1, exactly 100%, random, log-uniform; wrong length and > 100% in the fault batch), the referred-user factor through both instructions (incl. exactly 100% and > 100%), referral reward tables as distractor, role grants/revocations, signers with the wrong role / no role; after every transaction the discount is evaluated for every rank 0..=max+1 (+15,16,17,255) and both referral flags with the program function, the SDK function and the BigUint reference. distinct_nontrivial counts trigrams of (signer role, instruction, outcome class) plus fingerprints (max rank, class of referred factor, classes of table entries)".into()
    }
}
