//! Shared helpers of the `scn-user` scenarios: cached base world, PDAs, instruction builders, role-split keepers.

use std::sync::OnceLock;

use chainsim::deploy::{deploy_store, init_thread, store_ix, Dep};
use chainsim::rt::World;
use solana_program::{instruction::Instruction, pubkey::Pubkey, system_program};

/// 100 % in factor units (`MARKET_USD_UNIT`, 10^20).
pub const UNIT: u128 = 100_000_000_000_000_000_000;

pub const START_TS: i64 = 1_700_000_000;

static BASE: OnceLock<(World, Dep)> = OnceLock::new();

/// A freshly deployed store (programs + store + admin + all-role keeper); deterministic, cloned per run.
pub fn base_world() -> (World, Dep) {
    let (w, d) = BASE.get_or_init(|| {
        let mut w = World::new(START_TS, 1000);
        let d = deploy_store(&mut w);
        (w, d)
    });
    init_thread();
    (w.clone(), d.clone())
}

pub fn pda(seeds: &[&[u8]]) -> Pubkey {
    Pubkey::find_program_address(seeds, &gmsol_store::ID).0
}

pub fn user_pda(store: &Pubkey, owner: &Pubkey) -> Pubkey {
    pda(&[b"user", store.as_ref(), owner.as_ref()])
}

pub fn code_pda(store: &Pubkey, code: &[u8; 8]) -> Pubkey {
    pda(&[b"referral_code", store.as_ref(), code])
}

pub fn gt_vault_pda(store: &Pubkey, index: i64, window: u32) -> Pubkey {
    pda(&[b"gt_exchange_vault", store.as_ref(), &index.to_le_bytes(), &window.to_le_bytes()])
}

pub fn gt_exchange_pda(vault: &Pubkey, owner: &Pubkey) -> Pubkey {
    pda(&[b"gt_exchange", vault.as_ref(), owner.as_ref()])
}

pub fn prepare_user_ix(store: &Pubkey, signer: &Pubkey, user_acc: &Pubkey) -> Instruction {
    store_ix(
        gmsol_store::accounts::PrepareUser { owner: *signer, store: *store, user: *user_acc, system_program: system_program::ID },
        gmsol_store::instruction::PrepareUser {},
    )
}

pub fn grant_role_ix(d: &Dep, user: &Pubkey, role: &str) -> Instruction {
    store_ix(
        gmsol_store::accounts::GrantRole { authority: d.admin, store: d.store },
        gmsol_store::instruction::GrantRole { user: *user, role: role.to_string() },
    )
}

/// serde helpers: 128-bit integers as decimal strings (serde_json's `Value` cannot hold them).
pub mod u128_str {
    use serde::{Deserialize, Deserializer, Serializer};
    pub fn serialize<S: Serializer>(v: &u128, s: S) -> Result<S::Ok, S::Error> {
        s.serialize_str(&v.to_string())
    }
    pub fn deserialize<'de, D: Deserializer<'de>>(d: D) -> Result<u128, D::Error> {
        let s = String::deserialize(d)?;
        s.parse().map_err(serde::de::Error::custom)
    }
}

pub mod vec_u128_str {
    use serde::{Deserialize, Deserializer, Serializer};
    pub fn serialize<S: Serializer>(v: &[u128], s: S) -> Result<S::Ok, S::Error> {
        s.collect_seq(v.iter().map(|x| x.to_string()))
    }
    pub fn deserialize<'de, D: Deserializer<'de>>(d: D) -> Result<Vec<u128>, D::Error> {
        let v = Vec::<String>::deserialize(d)?;
        v.into_iter().map(|s| s.parse().map_err(serde::de::Error::custom)).collect()
    }
}
