pub mod rt;
