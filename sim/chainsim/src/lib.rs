pub mod deploy;
pub mod ex;
pub mod report;
pub mod rt;
pub mod smoke;
