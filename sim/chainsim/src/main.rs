fn main() {
    let args: Vec<String> = std::env::args().collect();
    if args.get(1).map(|s| s.as_str()) == Some("smoke") {
        let _out = if std::env::var("GMXSIM_LOG").is_ok() { None } else { Some(chainsim::rt::silence_stdout()) };
        simcore::panic_loc::install();
        chainsim::smoke::run();
        return;
    }
}
