fn main() {
    let _out = if std::env::var("GMXSIM_LOG").is_ok() { None } else { Some(chainsim::rt::silence_stdout()) };
    simcore::panic_loc::install();
    chainsim::smoke::run();
}
