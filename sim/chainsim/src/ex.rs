//! Exchange client: builds the transactions owners and keepers submit (create / execute / close of deposits,
//! withdrawals, shifts, orders; price updates; liquidation; fee/ADL state updates).

use solana_program::{
    instruction::{AccountMeta, Instruction},
    pubkey::Pubkey,
    system_program,
};

use gmsol_store::states::common::action::Action;
use gmsol_store::states::common::swap::HasSwapParams;

use crate::deploy::{ata, read_pod, store_ix, vault_of, Dep, MarketInfo};
use crate::report::ReportSpec;
use crate::rt::World;

pub const TOKEN_PROGRAM: Pubkey = spl_token::ID;
pub const ATA_PROGRAM: Pubkey = spl_associated_token_account::ID;

pub fn pda(seeds: &[&[u8]]) -> Pubkey {
    Pubkey::find_program_address(seeds, &gmsol_store::ID).0
}

pub fn deposit_pda(d: &Dep, owner: &Pubkey, nonce: &[u8; 32]) -> Pubkey {
    pda(&[b"deposit", d.store.as_ref(), owner.as_ref(), nonce])
}
pub fn withdrawal_pda(d: &Dep, owner: &Pubkey, nonce: &[u8; 32]) -> Pubkey {
    pda(&[b"withdrawal", d.store.as_ref(), owner.as_ref(), nonce])
}
pub fn shift_pda(d: &Dep, owner: &Pubkey, nonce: &[u8; 32]) -> Pubkey {
    pda(&[b"shift", d.store.as_ref(), owner.as_ref(), nonce])
}
pub fn order_pda(d: &Dep, owner: &Pubkey, nonce: &[u8; 32]) -> Pubkey {
    pda(&[b"order", d.store.as_ref(), owner.as_ref(), nonce])
}
pub fn user_pda(d: &Dep, owner: &Pubkey) -> Pubkey {
    pda(&[b"user", d.store.as_ref(), owner.as_ref()])
}
pub fn position_pda(d: &Dep, owner: &Pubkey, market_token: &Pubkey, collateral: &Pubkey, is_long: bool) -> Pubkey {
    let kind = if is_long { 1u8 } else { 2u8 };
    pda(&[b"position", d.store.as_ref(), owner.as_ref(), market_token.as_ref(), collateral.as_ref(), &[kind]])
}
pub fn trade_event_pda(d: &Dep, authority: &Pubkey, index: u16) -> Pubkey {
    pda(&[b"trade_event_data", d.store.as_ref(), authority.as_ref(), &index.to_le_bytes()])
}
pub fn claimable_pda(d: &Dep, mint: &Pubkey, user: &Pubkey, time_key: &[u8; 8]) -> Pubkey {
    pda(&[b"claimable_account", d.store.as_ref(), mint.as_ref(), user.as_ref(), time_key])
}

pub fn create_ata_ix(payer: &Pubkey, owner: &Pubkey, mint: &Pubkey) -> Instruction {
    spl_associated_token_account::instruction::create_associated_token_account_idempotent(payer, owner, mint, &TOKEN_PROGRAM)
}

fn market_metas(d: &Dep, path: &[usize]) -> Vec<AccountMeta> {
    path.iter().map(|m| AccountMeta::new(d.markets[*m].market, false)).collect()
}

/// The price feed accounts for an action's token list followed by the writable swap-path markets
/// (excluding `current`).
pub fn feeds_and_markets(d: &Dep, tokens: &[Pubkey], market_tokens: &[Pubkey], current: &[Pubkey]) -> Vec<AccountMeta> {
    let mut v = Vec::new();
    for t in tokens {
        let pf = d
            .tokens
            .iter()
            .find(|x| x.mint == *t)
            .map(|x| x.price_feed)
            .unwrap_or_default();
        v.push(AccountMeta::new_readonly(pf, false));
    }
    let mut seen: Vec<Pubkey> = current.to_vec();
    for mt in market_tokens {
        if !seen.contains(mt) {
            seen.push(*mt);
            if let Some(m) = d.markets.iter().find(|m| m.market_token == *mt) {
                v.push(AccountMeta::new(m.market, false));
            }
        }
    }
    v
}

pub fn update_feed_ix(d: &Dep, token_idx: usize, report: &ReportSpec, idempotent: bool) -> Instruction {
    update_feed_raw_ix(d, token_idx, report.compressed(), idempotent)
}

pub fn update_feed_raw_ix(d: &Dep, token_idx: usize, compressed_report: Vec<u8>, idempotent: bool) -> Instruction {
    let accounts = gmsol_store::accounts::UpdatePriceFeedWithChainlink {
        authority: d.keeper,
        store: d.store,
        verifier_account: d.verifier_account,
        access_controller: d.access_controller,
        config_account: d.store_wallet, // unchecked by the mock verifier
        price_feed: d.tokens[token_idx].price_feed,
        chainlink: gmsol_mock_chainlink_verifier::ID,
    };
    if idempotent {
        store_ix(accounts, gmsol_store::instruction::UpdatePriceFeedWithChainlinkIdempotent { compressed_report })
    } else {
        store_ix(accounts, gmsol_store::instruction::UpdatePriceFeedWithChainlink { compressed_report })
    }
}

// ---------------------------------------------------------------- deposits

#[derive(Clone, Debug)]
pub struct DepositArgs {
    pub owner: Pubkey,
    pub market: usize,
    pub nonce: [u8; 32],
    pub long_amount: u64,
    pub short_amount: u64,
    pub min_market_token: u64,
    pub execution_lamports: u64,
    /// Initial tokens (token indices); default = the market's long / short tokens.
    pub initial_long_token: Option<usize>,
    pub initial_short_token: Option<usize>,
    pub long_path: Vec<usize>,
    pub short_path: Vec<usize>,
}

pub fn create_deposit_tx(d: &Dep, a: &DepositArgs) -> (Vec<Instruction>, Pubkey) {
    let m = &d.markets[a.market];
    let deposit = deposit_pda(d, &a.owner, &a.nonce);
    let lt = d.tokens[a.initial_long_token.unwrap_or(m.long)].mint;
    let st = d.tokens[a.initial_short_token.unwrap_or(m.short)].mint;
    let use_long = a.long_amount > 0;
    let use_short = a.short_amount > 0;
    let mut ixs = vec![create_ata_ix(&a.owner, &deposit, &m.market_token), create_ata_ix(&a.owner, &a.owner, &m.market_token)];
    if use_long {
        ixs.push(create_ata_ix(&a.owner, &deposit, &lt));
    }
    if use_short {
        ixs.push(create_ata_ix(&a.owner, &deposit, &st));
    }
    let mut ix = store_ix(
        gmsol_store::accounts::CreateDeposit {
            owner: a.owner,
            receiver: a.owner,
            store: d.store,
            market: m.market,
            deposit,
            market_token: m.market_token,
            initial_long_token: use_long.then_some(lt),
            initial_short_token: use_short.then_some(st),
            market_token_escrow: ata(&deposit, &m.market_token),
            initial_long_token_escrow: use_long.then(|| ata(&deposit, &lt)),
            initial_short_token_escrow: use_short.then(|| ata(&deposit, &st)),
            market_token_ata: ata(&a.owner, &m.market_token),
            initial_long_token_source: use_long.then(|| ata(&a.owner, &lt)),
            initial_short_token_source: use_short.then(|| ata(&a.owner, &st)),
            system_program: system_program::ID,
            token_program: TOKEN_PROGRAM,
            associated_token_program: ATA_PROGRAM,
        },
        gmsol_store::instruction::CreateDeposit {
            nonce: a.nonce,
            params: gmsol_store::ops::deposit::CreateDepositParams {
                execution_lamports: a.execution_lamports,
                long_token_swap_length: a.long_path.len() as u8,
                short_token_swap_length: a.short_path.len() as u8,
                initial_long_token_amount: a.long_amount,
                initial_short_token_amount: a.short_amount,
                min_market_token_amount: a.min_market_token,
                should_unwrap_native_token: false,
            },
        },
    );
    ix.accounts.extend(market_metas(d, &a.long_path));
    ix.accounts.extend(market_metas(d, &a.short_path));
    ixs.push(ix);
    (ixs, deposit)
}

fn opt_key(k: &Pubkey) -> Option<Pubkey> {
    if *k == Pubkey::default() {
        None
    } else {
        Some(*k)
    }
}

pub fn execute_deposit_ix(w: &World, d: &Dep, deposit: &Pubkey, throw: bool, execution_fee: u64) -> Option<Instruction> {
    let dep: gmsol_store::states::Deposit = read_pod(w, deposit)?;
    let tokens = dep.swap().tokens().to_vec();
    let mt = dep.tokens().market_token();
    let market = d.markets.iter().find(|m| m.market_token == mt)?;
    let lt = dep.tokens().initial_long_token.token();
    let st = dep.tokens().initial_short_token.token();
    let mut ix = store_ix(
        gmsol_store::accounts::ExecuteDeposit {
            authority: d.keeper,
            store: d.store,
            token_map: d.token_map,
            oracle: d.oracle,
            market: market.market,
            deposit: *deposit,
            market_token: mt,
            initial_long_token: lt,
            initial_short_token: st,
            market_token_escrow: ata(deposit, &mt),
            initial_long_token_escrow: lt.map(|t| ata(deposit, &t)),
            initial_short_token_escrow: st.map(|t| ata(deposit, &t)),
            initial_long_token_vault: lt.map(|t| vault_of(&d.store, &t)),
            initial_short_token_vault: st.map(|t| vault_of(&d.store, &t)),
            token_program: TOKEN_PROGRAM,
            system_program: system_program::ID,
            chainlink_program: None,
            event_authority: d.event_authority,
            program: gmsol_store::ID,
        },
        gmsol_store::instruction::ExecuteDeposit { execution_fee, throw_on_execution_error: throw },
    );
    let path: Vec<Pubkey> = dep.swap().primary_swap_path().iter().chain(dep.swap().secondary_swap_path().iter()).copied().collect();
    ix.accounts.extend(feeds_and_markets(d, &tokens, &path, &[mt]));
    Some(ix)
}

pub fn close_deposit_ix(w: &World, d: &Dep, deposit: &Pubkey, executor: &Pubkey) -> Option<Instruction> {
    let dep: gmsol_store::states::Deposit = read_pod(w, deposit)?;
    let owner = *dep.header().owner();
    let receiver = dep.header().receiver();
    let mt = dep.tokens().market_token();
    let lt = dep.tokens().initial_long_token.token();
    let st = dep.tokens().initial_short_token.token();
    Some(store_ix(
        gmsol_store::accounts::CloseDeposit {
            executor: *executor,
            store: d.store,
            store_wallet: d.store_wallet,
            owner,
            receiver,
            market_token: mt,
            initial_long_token: lt,
            initial_short_token: st,
            deposit: *deposit,
            market_token_escrow: ata(deposit, &mt),
            initial_long_token_escrow: lt.map(|t| ata(deposit, &t)),
            initial_short_token_escrow: st.map(|t| ata(deposit, &t)),
            market_token_ata: ata(&receiver, &mt),
            initial_long_token_ata: lt.map(|t| ata(&owner, &t)),
            initial_short_token_ata: st.map(|t| ata(&owner, &t)),
            system_program: system_program::ID,
            token_program: TOKEN_PROGRAM,
            associated_token_program: ATA_PROGRAM,
            event_authority: d.event_authority,
            program: gmsol_store::ID,
        },
        gmsol_store::instruction::CloseDeposit { reason: "sim".to_string() },
    ))
}

// ---------------------------------------------------------------- withdrawals

#[derive(Clone, Debug)]
pub struct WithdrawalArgs {
    pub owner: Pubkey,
    pub market: usize,
    pub nonce: [u8; 32],
    pub market_token_amount: u64,
    pub min_long: u64,
    pub min_short: u64,
    pub execution_lamports: u64,
    pub final_long_token: Option<usize>,
    pub final_short_token: Option<usize>,
    pub long_path: Vec<usize>,
    pub short_path: Vec<usize>,
}

pub fn create_withdrawal_tx(d: &Dep, a: &WithdrawalArgs) -> (Vec<Instruction>, Pubkey) {
    let m = &d.markets[a.market];
    let wd = withdrawal_pda(d, &a.owner, &a.nonce);
    let lt = d.tokens[a.final_long_token.unwrap_or(m.long)].mint;
    let st = d.tokens[a.final_short_token.unwrap_or(m.short)].mint;
    let mut ixs = vec![
        create_ata_ix(&a.owner, &wd, &m.market_token),
        create_ata_ix(&a.owner, &wd, &lt),
        create_ata_ix(&a.owner, &wd, &st),
        create_ata_ix(&a.owner, &a.owner, &lt),
        create_ata_ix(&a.owner, &a.owner, &st),
    ];
    let mut ix = store_ix(
        gmsol_store::accounts::CreateWithdrawal {
            owner: a.owner,
            receiver: a.owner,
            store: d.store,
            market: m.market,
            withdrawal: wd,
            market_token: m.market_token,
            final_long_token: lt,
            final_short_token: st,
            market_token_escrow: ata(&wd, &m.market_token),
            final_long_token_escrow: ata(&wd, &lt),
            final_short_token_escrow: ata(&wd, &st),
            market_token_source: ata(&a.owner, &m.market_token),
            system_program: system_program::ID,
            token_program: TOKEN_PROGRAM,
            associated_token_program: ATA_PROGRAM,
        },
        gmsol_store::instruction::CreateWithdrawal {
            nonce: a.nonce,
            params: gmsol_store::ops::withdrawal::CreateWithdrawalParams {
                execution_lamports: a.execution_lamports,
                long_token_swap_path_length: a.long_path.len() as u8,
                short_token_swap_path_length: a.short_path.len() as u8,
                market_token_amount: a.market_token_amount,
                min_long_token_amount: a.min_long,
                min_short_token_amount: a.min_short,
                should_unwrap_native_token: false,
            },
        },
    );
    ix.accounts.extend(market_metas(d, &a.long_path));
    ix.accounts.extend(market_metas(d, &a.short_path));
    ixs.push(ix);
    (ixs, wd)
}

pub fn execute_withdrawal_ix(w: &World, d: &Dep, wd: &Pubkey, throw: bool, execution_fee: u64) -> Option<Instruction> {
    let x: gmsol_store::states::Withdrawal = read_pod(w, wd)?;
    let tokens = x.swap().tokens().to_vec();
    let mt = x.tokens().market_token();
    let market = d.markets.iter().find(|m| m.market_token == mt)?;
    let lt = x.tokens().final_long_token();
    let st = x.tokens().final_short_token();
    let mut ix = store_ix(
        gmsol_store::accounts::ExecuteWithdrawal {
            authority: d.keeper,
            store: d.store,
            token_map: d.token_map,
            oracle: d.oracle,
            market: market.market,
            withdrawal: *wd,
            market_token: mt,
            final_long_token: lt,
            final_short_token: st,
            market_token_escrow: ata(wd, &mt),
            final_long_token_escrow: ata(wd, &lt),
            final_short_token_escrow: ata(wd, &st),
            market_token_vault: vault_of(&d.store, &mt),
            final_long_token_vault: vault_of(&d.store, &lt),
            final_short_token_vault: vault_of(&d.store, &st),
            token_program: TOKEN_PROGRAM,
            system_program: system_program::ID,
            chainlink_program: None,
            event_authority: d.event_authority,
            program: gmsol_store::ID,
        },
        gmsol_store::instruction::ExecuteWithdrawal { execution_fee, throw_on_execution_error: throw },
    );
    let path: Vec<Pubkey> = x.swap().primary_swap_path().iter().chain(x.swap().secondary_swap_path().iter()).copied().collect();
    ix.accounts.extend(feeds_and_markets(d, &tokens, &path, &[mt]));
    Some(ix)
}

pub fn close_withdrawal_ix(w: &World, d: &Dep, wd: &Pubkey, executor: &Pubkey) -> Option<Instruction> {
    let x: gmsol_store::states::Withdrawal = read_pod(w, wd)?;
    let owner = *x.header().owner();
    let receiver = x.header().receiver();
    let mt = x.tokens().market_token();
    let lt = x.tokens().final_long_token();
    let st = x.tokens().final_short_token();
    Some(store_ix(
        gmsol_store::accounts::CloseWithdrawal {
            executor: *executor,
            store: d.store,
            store_wallet: d.store_wallet,
            owner,
            receiver,
            market_token: mt,
            final_long_token: lt,
            final_short_token: st,
            withdrawal: *wd,
            market_token_escrow: ata(wd, &mt),
            final_long_token_escrow: ata(wd, &lt),
            final_short_token_escrow: ata(wd, &st),
            market_token_ata: ata(&owner, &mt),
            final_long_token_ata: ata(&receiver, &lt),
            final_short_token_ata: ata(&receiver, &st),
            system_program: system_program::ID,
            token_program: TOKEN_PROGRAM,
            associated_token_program: ATA_PROGRAM,
            event_authority: d.event_authority,
            program: gmsol_store::ID,
        },
        gmsol_store::instruction::CloseWithdrawal { reason: "sim".to_string() },
    ))
}

// ---------------------------------------------------------------- shifts

#[derive(Clone, Debug)]
pub struct ShiftArgs {
    pub owner: Pubkey,
    pub from_market: usize,
    pub to_market: usize,
    pub nonce: [u8; 32],
    pub amount: u64,
    pub min_to: u64,
    pub execution_lamports: u64,
}

pub fn create_shift_tx(d: &Dep, a: &ShiftArgs) -> (Vec<Instruction>, Pubkey) {
    let fm = &d.markets[a.from_market];
    let tm = &d.markets[a.to_market];
    let shift = shift_pda(d, &a.owner, &a.nonce);
    let ixs = vec![
        create_ata_ix(&a.owner, &shift, &fm.market_token),
        create_ata_ix(&a.owner, &shift, &tm.market_token),
        create_ata_ix(&a.owner, &a.owner, &tm.market_token),
        store_ix(
            gmsol_store::accounts::CreateShift {
                owner: a.owner,
                receiver: a.owner,
                store: d.store,
                from_market: fm.market,
                to_market: tm.market,
                shift,
                from_market_token: fm.market_token,
                to_market_token: tm.market_token,
                from_market_token_escrow: ata(&shift, &fm.market_token),
                to_market_token_escrow: ata(&shift, &tm.market_token),
                from_market_token_source: ata(&a.owner, &fm.market_token),
                to_market_token_ata: ata(&a.owner, &tm.market_token),
                system_program: system_program::ID,
                token_program: TOKEN_PROGRAM,
                associated_token_program: ATA_PROGRAM,
            },
            gmsol_store::instruction::CreateShift {
                nonce: a.nonce,
                params: gmsol_store::ops::shift::CreateShiftParams {
                    execution_lamports: a.execution_lamports,
                    from_market_token_amount: a.amount,
                    min_to_market_token_amount: a.min_to,
                },
            },
        ),
    ];
    (ixs, shift)
}

pub fn execute_shift_ix(w: &World, d: &Dep, shift: &Pubkey, throw: bool, execution_lamports: u64) -> Option<Instruction> {
    let x: gmsol_store::states::Shift = read_pod(w, shift)?;
    let fmt = x.tokens().from_market_token();
    let tmt = x.tokens().to_market_token();
    let fm = d.markets.iter().find(|m| m.market_token == fmt)?;
    let tm = d.markets.iter().find(|m| m.market_token == tmt)?;
    let tokens: Vec<Pubkey> = {
        let mut t: std::collections::BTreeSet<Pubkey> = Default::default();
        for m in [fm, tm] {
            t.insert(d.tokens[m.index].mint);
            t.insert(d.tokens[m.long].mint);
            t.insert(d.tokens[m.short].mint);
        }
        t.into_iter().collect()
    };
    let mut ix = store_ix(
        gmsol_store::accounts::ExecuteShift {
            authority: d.keeper,
            store: d.store,
            token_map: d.token_map,
            oracle: d.oracle,
            from_market: fm.market,
            to_market: tm.market,
            shift: *shift,
            from_market_token: fmt,
            to_market_token: tmt,
            from_market_token_escrow: ata(shift, &fmt),
            to_market_token_escrow: ata(shift, &tmt),
            from_market_token_vault: vault_of(&d.store, &fmt),
            token_program: TOKEN_PROGRAM,
            chainlink_program: None,
            event_authority: d.event_authority,
            program: gmsol_store::ID,
        },
        gmsol_store::instruction::ExecuteShift { execution_lamports, throw_on_execution_error: throw },
    );
    ix.accounts.extend(feeds_and_markets(d, &tokens, &[], &[]));
    Some(ix)
}

pub fn close_shift_ix(w: &World, d: &Dep, shift: &Pubkey, executor: &Pubkey) -> Option<Instruction> {
    let x: gmsol_store::states::Shift = read_pod(w, shift)?;
    let owner = *x.header().owner();
    let receiver = x.header().receiver();
    let fmt = x.tokens().from_market_token();
    let tmt = x.tokens().to_market_token();
    Some(store_ix(
        gmsol_store::accounts::CloseShift {
            executor: *executor,
            store: d.store,
            store_wallet: d.store_wallet,
            owner,
            receiver,
            shift: *shift,
            from_market_token: fmt,
            to_market_token: tmt,
            from_market_token_escrow: ata(shift, &fmt),
            to_market_token_escrow: ata(shift, &tmt),
            from_market_token_ata: ata(&owner, &fmt),
            to_market_token_ata: ata(&receiver, &tmt),
            system_program: system_program::ID,
            token_program: TOKEN_PROGRAM,
            associated_token_program: ATA_PROGRAM,
            event_authority: d.event_authority,
            program: gmsol_store::ID,
        },
        gmsol_store::instruction::CloseShift { reason: "sim".to_string() },
    ))
}

// ---------------------------------------------------------------- orders

pub use gmsol_store::ops::order::CreateOrderParams;
pub use gmsol_store::states::order::OrderKind;

#[derive(Clone, Debug)]
pub struct OrderArgs {
    pub owner: Pubkey,
    pub market: usize,
    pub nonce: [u8; 32],
    pub kind: OrderKind,
    pub is_long: bool,
    pub is_collateral_long: bool,
    pub collateral_delta: u64,
    pub size_delta: u128,
    pub execution_lamports: u64,
    pub min_output: Option<u128>,
    pub trigger_price: Option<u128>,
    pub acceptable_price: Option<u128>,
    pub valid_from_ts: Option<i64>,
    /// Increase / swap: token paid in (token index); default = the collateral token.
    pub initial_collateral_token: Option<usize>,
    /// Decrease / swap: token received (token index); default = the collateral token.
    pub final_output_token: Option<usize>,
    pub swap_path: Vec<usize>,
    pub swap_type: Option<gmsol_model::action::decrease_position::DecreasePositionSwapType>,
}

pub fn prepare_user_ix(d: &Dep, owner: &Pubkey) -> Instruction {
    store_ix(
        gmsol_store::accounts::PrepareUser {
            owner: *owner,
            store: d.store,
            user: user_pda(d, owner),
            system_program: system_program::ID,
        },
        gmsol_store::instruction::PrepareUser {},
    )
}

fn order_params(a: &OrderArgs) -> CreateOrderParams {
    CreateOrderParams {
        kind: a.kind,
        decrease_position_swap_type: a.swap_type,
        execution_lamports: a.execution_lamports,
        swap_path_length: a.swap_path.len() as u8,
        initial_collateral_delta_amount: a.collateral_delta,
        size_delta_value: a.size_delta,
        is_long: a.is_long,
        is_collateral_long: a.is_collateral_long,
        min_output: a.min_output,
        trigger_price: a.trigger_price,
        acceptable_price: a.acceptable_price,
        should_unwrap_native_token: false,
        valid_from_ts: a.valid_from_ts,
    }
}

pub fn is_increase(k: OrderKind) -> bool {
    matches!(k, OrderKind::MarketIncrease | OrderKind::LimitIncrease)
}
pub fn is_decrease(k: OrderKind) -> bool {
    matches!(
        k,
        OrderKind::MarketDecrease | OrderKind::LimitDecrease | OrderKind::StopLossDecrease | OrderKind::Liquidation | OrderKind::AutoDeleveraging
    )
}

pub fn create_order_tx(d: &Dep, a: &OrderArgs) -> (Vec<Instruction>, Pubkey, Option<Pubkey>) {
    create_order_tx_opts(d, a, false)
}

/// `init_final_output_for_increase`: also initialise the (optional) final-output-token escrow of an
/// increase order — the account a builder fee is paid out of.
pub fn create_order_tx_opts(d: &Dep, a: &OrderArgs, init_final_output_for_increase: bool) -> (Vec<Instruction>, Pubkey, Option<Pubkey>) {
    let m: &MarketInfo = &d.markets[a.market];
    let order = order_pda(d, &a.owner, &a.nonce);
    let long = d.tokens[m.long].mint;
    let short = d.tokens[m.short].mint;
    let collateral = if a.is_collateral_long { long } else { short };
    let params = order_params(a);
    let mut ixs = vec![prepare_user_ix(d, &a.owner)];
    let swap = a.kind.is_swap();
    let position = (!swap).then(|| position_pda(d, &a.owner, &m.market_token, &collateral, a.is_long));
    if let Some(p) = position {
        ixs.push(store_ix(
            gmsol_store::accounts::PreparePosition {
                owner: a.owner,
                store: d.store,
                market: m.market,
                position: p,
                system_program: system_program::ID,
            },
            gmsol_store::instruction::PreparePosition { params: params.clone() },
        ));
    }
    let inc = is_increase(a.kind);
    let dec = is_decrease(a.kind);
    let initial = (inc || swap).then(|| d.tokens[a.initial_collateral_token.unwrap_or(if a.is_collateral_long { m.long } else { m.short })].mint);
    let final_out = if inc {
        collateral
    } else {
        d.tokens[a.final_output_token.unwrap_or(if a.is_collateral_long { m.long } else { m.short })].mint
    };
    if let Some(t) = initial {
        ixs.push(create_ata_ix(&a.owner, &order, &t));
    }
    if dec || swap || (inc && init_final_output_for_increase) {
        ixs.push(create_ata_ix(&a.owner, &order, &final_out));
        ixs.push(create_ata_ix(&a.owner, &a.owner, &final_out));
    }
    if inc || dec {
        ixs.push(create_ata_ix(&a.owner, &order, &long));
        ixs.push(create_ata_ix(&a.owner, &order, &short));
        ixs.push(create_ata_ix(&a.owner, &a.owner, &long));
        ixs.push(create_ata_ix(&a.owner, &a.owner, &short));
    }
    let mut ix = store_ix(
        gmsol_store::accounts::CreateOrderV2 {
            owner: a.owner,
            receiver: a.owner,
            store: d.store,
            market: m.market,
            user: user_pda(d, &a.owner),
            order,
            position,
            initial_collateral_token: initial,
            final_output_token: final_out,
            long_token: (inc || dec).then_some(long),
            short_token: (inc || dec).then_some(short),
            initial_collateral_token_escrow: initial.map(|t| ata(&order, &t)),
            final_output_token_escrow: (dec || swap || (inc && init_final_output_for_increase)).then(|| ata(&order, &final_out)),
            long_token_escrow: (inc || dec).then(|| ata(&order, &long)),
            short_token_escrow: (inc || dec).then(|| ata(&order, &short)),
            initial_collateral_token_source: initial.map(|t| ata(&a.owner, &t)),
            system_program: system_program::ID,
            token_program: TOKEN_PROGRAM,
            associated_token_program: ATA_PROGRAM,
            callback_authority: None,
            callback_program: None,
            callback_shared_data_account: None,
            callback_partitioned_data_account: None,
            event_authority: d.event_authority,
            program: gmsol_store::ID,
        },
        gmsol_store::instruction::CreateOrderV2 { nonce: a.nonce, params, callback_version: None },
    );
    ix.accounts.extend(market_metas(d, &a.swap_path));
    ixs.push(ix);
    (ixs, order, position)
}

pub fn prepare_trade_event_ix(d: &Dep, index: u16) -> Instruction {
    store_ix(
        gmsol_store::accounts::PrepareTradeEventBuffer {
            authority: d.keeper,
            store: d.store,
            event: trade_event_pda(d, &d.keeper, index),
            system_program: system_program::ID,
        },
        gmsol_store::instruction::PrepareTradeEventBuffer { index },
    )
}

pub fn claimable_time_key(w: &World, d: &Dep, ts: i64) -> [u8; 8] {
    let store: gmsol_store::states::Store = read_pod(w, &d.store).expect("store");
    store.claimable_time_key(ts).unwrap_or([0; 8])
}

/// `use_claimable_account` instructions the keeper sends before a decrease / liquidation / ADL.
pub fn claimable_prepare_ixs(w: &World, d: &Dep, owner: &Pubkey, long: &Pubkey, short: &Pubkey, pnl: &Pubkey, ts: i64) -> (Vec<Instruction>, [Pubkey; 3]) {
    let store: gmsol_store::states::Store = read_pod(w, &d.store).expect("store");
    let holding = *store.holding();
    let key = claimable_time_key(w, d, ts);
    let accs = [
        claimable_pda(d, long, owner, &key),
        claimable_pda(d, short, owner, &key),
        claimable_pda(d, pnl, &holding, &key),
    ];
    let mk = |mint: &Pubkey, o: &Pubkey, acc: &Pubkey| {
        store_ix(
            gmsol_store::accounts::UseClaimableAccount {
                authority: d.keeper,
                store: d.store,
                mint: *mint,
                owner: *o,
                account: *acc,
                system_program: system_program::ID,
                token_program: TOKEN_PROGRAM,
            },
            gmsol_store::instruction::UseClaimableAccount { timestamp: ts, amount: 0 },
        )
    };
    let mut ixs = vec![mk(long, owner, &accs[0])];
    if accs[1] != accs[0] {
        ixs.push(mk(short, owner, &accs[1]));
    }
    ixs.push(mk(pnl, &holding, &accs[2]));
    (ixs, accs)
}

pub struct OrderView {
    pub order: gmsol_store::states::Order,
    pub owner: Pubkey,
    pub market_token: Pubkey,
    pub kind: OrderKind,
}

pub fn read_order(w: &World, order: &Pubkey) -> Option<OrderView> {
    let o: gmsol_store::states::Order = read_pod(w, order)?;
    let owner = *o.header().owner();
    let market_token = *o.market_token();
    let kind = o.params().kind().ok()?;
    Some(OrderView { order: o, owner, market_token, kind })
}

pub fn execute_order_tx(w: &World, d: &Dep, order_key: &Pubkey, throw: bool, execution_fee: u64, event_index: u16) -> Option<Vec<Instruction>> {
    let v = read_order(w, order_key)?;
    let o = &v.order;
    let market = d.markets.iter().find(|m| m.market_token == v.market_token)?;
    let tokens = o.swap().tokens().to_vec();
    let long = d.tokens[market.long].mint;
    let short = d.tokens[market.short].mint;
    let ts = w.clock.unix_timestamp;
    let swap = v.kind.is_swap();
    let position = o.params().position().copied();
    let initial = o.tokens().initial_collateral().token();
    let final_out = o.tokens().final_output_token().token();
    let long_t = o.tokens().long_token().token();
    let short_t = o.tokens().short_token().token();
    let user = user_pda(d, &v.owner);
    let path: Vec<Pubkey> = o.swap().primary_swap_path().iter().chain(o.swap().secondary_swap_path().iter()).copied().collect();
    let extra = feeds_and_markets(d, &tokens, &path, &[v.market_token]);
    let event = trade_event_pda(d, &d.keeper, event_index);
    let mut ixs = vec![];
    if is_decrease(v.kind) {
        let pnl = if o.params().side().ok()?.is_long() { long } else { short };
        let (pre, acc) = claimable_prepare_ixs(w, d, &v.owner, &long, &short, &pnl, ts);
        ixs.extend(pre);
        ixs.push(prepare_trade_event_ix(d, event_index));
        let fo = final_out?;
        let mut ix = store_ix(
            gmsol_store::accounts::ExecuteDecreaseOrderV2 {
                authority: d.keeper,
                store: d.store,
                token_map: d.token_map,
                oracle: d.oracle,
                market: market.market,
                owner: v.owner,
                user,
                order: *order_key,
                position: position?,
                event,
                final_output_token: fo,
                long_token: long,
                short_token: short,
                final_output_token_escrow: ata(order_key, &fo),
                long_token_escrow: ata(order_key, &long),
                short_token_escrow: ata(order_key, &short),
                final_output_token_vault: vault_of(&d.store, &fo),
                long_token_vault: vault_of(&d.store, &long),
                short_token_vault: vault_of(&d.store, &short),
                claimable_long_token_account_for_user: acc[0],
                claimable_short_token_account_for_user: acc[1],
                claimable_pnl_token_account_for_holding: acc[2],
                token_program: TOKEN_PROGRAM,
                system_program: system_program::ID,
                callback_authority: None,
                callback_program: None,
                callback_shared_data_account: None,
                callback_partitioned_data_account: None,
                event_authority: d.event_authority,
                program: gmsol_store::ID,
            },
            gmsol_store::instruction::ExecuteDecreaseOrderV2 { recent_timestamp: ts, execution_fee, throw_on_execution_error: throw },
        );
        ix.accounts.extend(extra);
        ixs.push(ix);
    } else {
        if !swap {
            ixs.push(prepare_trade_event_ix(d, event_index));
        }
        let mut ix = store_ix(
            gmsol_store::accounts::ExecuteIncreaseOrSwapOrderV2 {
                authority: d.keeper,
                store: d.store,
                token_map: d.token_map,
                oracle: d.oracle,
                market: market.market,
                owner: v.owner,
                user,
                order: *order_key,
                position,
                event: (!swap).then_some(event),
                initial_collateral_token: initial,
                final_output_token: final_out,
                long_token: long_t,
                short_token: short_t,
                initial_collateral_token_escrow: initial.map(|t| ata(order_key, &t)),
                final_output_token_escrow: final_out.map(|t| ata(order_key, &t)),
                long_token_escrow: long_t.map(|t| ata(order_key, &t)),
                short_token_escrow: short_t.map(|t| ata(order_key, &t)),
                initial_collateral_token_vault: initial.map(|t| vault_of(&d.store, &t)),
                final_output_token_vault: final_out.map(|t| vault_of(&d.store, &t)),
                long_token_vault: long_t.map(|t| vault_of(&d.store, &t)),
                short_token_vault: short_t.map(|t| vault_of(&d.store, &t)),
                token_program: TOKEN_PROGRAM,
                system_program: system_program::ID,
                callback_authority: None,
                callback_program: None,
                callback_shared_data_account: None,
                callback_partitioned_data_account: None,
                event_authority: d.event_authority,
                program: gmsol_store::ID,
            },
            gmsol_store::instruction::ExecuteIncreaseOrSwapOrderV2 { recent_timestamp: ts, execution_fee, throw_on_execution_error: throw },
        );
        ix.accounts.extend(extra);
        ixs.push(ix);
    }
    Some(ixs)
}

pub fn close_order_ix(w: &World, d: &Dep, order_key: &Pubkey, executor: &Pubkey) -> Option<Instruction> {
    let v = read_order(w, order_key)?;
    let o = &v.order;
    let owner = v.owner;
    let receiver = o.header().receiver();
    let rent_receiver = *o.header().rent_receiver();
    let initial = o.tokens().initial_collateral().token();
    let final_out = o.tokens().final_output_token().token();
    let long_t = o.tokens().long_token().token();
    let short_t = o.tokens().short_token().token();
    let user: Option<gmsol_store::states::user::UserHeader> = read_pod(w, &user_pda(d, &owner));
    let referrer_user = user.and_then(|u| u.referral().referrer().copied()).map(|r| user_pda(d, &r));
    Some(store_ix(
        gmsol_store::accounts::CloseOrderV2 {
            executor: *executor,
            store: d.store,
            store_wallet: d.store_wallet,
            owner,
            receiver,
            rent_receiver,
            user: user_pda(d, &owner),
            referrer_user,
            order: *order_key,
            initial_collateral_token: initial,
            final_output_token: final_out,
            long_token: long_t,
            short_token: short_t,
            initial_collateral_token_escrow: initial.map(|t| ata(order_key, &t)),
            final_output_token_escrow: final_out.map(|t| ata(order_key, &t)),
            long_token_escrow: long_t.map(|t| ata(order_key, &t)),
            short_token_escrow: short_t.map(|t| ata(order_key, &t)),
            initial_collateral_token_ata: initial.map(|t| ata(&owner, &t)),
            final_output_token_ata: final_out.map(|t| ata(&receiver, &t)),
            long_token_ata: long_t.map(|t| ata(&receiver, &t)),
            short_token_ata: short_t.map(|t| ata(&receiver, &t)),
            system_program: system_program::ID,
            token_program: TOKEN_PROGRAM,
            associated_token_program: ATA_PROGRAM,
            callback_authority: None,
            callback_program: None,
            callback_shared_data_account: None,
            callback_partitioned_data_account: None,
            event_authority: d.event_authority,
            program: gmsol_store::ID,
        },
        gmsol_store::instruction::CloseOrderV2 { reason: "sim".to_string() },
    ))
}

/// Liquidation / ADL of a position.
pub fn position_cut_tx(
    w: &World,
    d: &Dep,
    position_key: &Pubkey,
    nonce: [u8; 32],
    adl_size: Option<u128>,
    execution_fee: u64,
    event_index: u16,
) -> Option<(Vec<Instruction>, Pubkey)> {
    let p: gmsol_store::states::Position = read_pod(w, position_key)?;
    let market = d.markets.iter().find(|m| m.market_token == p.market_token)?;
    let long = d.tokens[market.long].mint;
    let short = d.tokens[market.short].mint;
    let is_long = p.kind().ok()? == gmsol_store::states::position::PositionKind::Long;
    let pnl = if is_long { long } else { short };
    let owner = p.owner;
    let ts = w.clock.unix_timestamp;
    let order = order_pda(d, &d.keeper, &nonce);
    let (mut ixs, acc) = claimable_prepare_ixs(w, d, &owner, &long, &short, &pnl, ts);
    ixs.push(prepare_trade_event_ix(d, event_index));
    ixs.push(create_ata_ix(&d.keeper, &order, &long));
    ixs.push(create_ata_ix(&d.keeper, &order, &short));
    ixs.push(create_ata_ix(&d.keeper, &owner, &long));
    ixs.push(create_ata_ix(&d.keeper, &owner, &short));
    let accounts = gmsol_store::accounts::PositionCut {
        authority: d.keeper,
        owner,
        user: user_pda(d, &owner),
        store: d.store,
        token_map: d.token_map,
        oracle: d.oracle,
        market: market.market,
        order,
        position: *position_key,
        event: trade_event_pda(d, &d.keeper, event_index),
        long_token: long,
        short_token: short,
        long_token_escrow: ata(&order, &long),
        short_token_escrow: ata(&order, &short),
        long_token_vault: vault_of(&d.store, &long),
        short_token_vault: vault_of(&d.store, &short),
        claimable_long_token_account_for_user: acc[0],
        claimable_short_token_account_for_user: acc[1],
        claimable_pnl_token_account_for_holding: acc[2],
        system_program: system_program::ID,
        token_program: TOKEN_PROGRAM,
        associated_token_program: ATA_PROGRAM,
        chainlink_program: None,
        event_authority: d.event_authority,
        program: gmsol_store::ID,
    };
    let mut ix = match adl_size {
        None => store_ix(accounts, gmsol_store::instruction::Liquidate { nonce, recent_timestamp: ts, execution_fee }),
        Some(size) => store_ix(
            accounts,
            gmsol_store::instruction::AutoDeleverage { nonce, recent_timestamp: ts, size_delta_in_usd: size, execution_fee },
        ),
    };
    // feeds: index, long, short in the market's token order (deduplicated, sorted as the program expects)
    let tokens = market_feed_tokens(d, market);
    ix.accounts.extend(feeds_and_markets(d, &tokens, &[], &[]));
    ixs.push(ix);
    Some((ixs, order))
}

/// Tokens whose prices an instruction on a market needs, in the order the program expects
/// (sorted, deduplicated — see `ops::market`'s `ordered_tokens`).
pub fn market_feed_tokens(d: &Dep, m: &MarketInfo) -> Vec<Pubkey> {
    let mut t: std::collections::BTreeSet<Pubkey> = Default::default();
    t.insert(d.tokens[m.index].mint);
    t.insert(d.tokens[m.long].mint);
    t.insert(d.tokens[m.short].mint);
    t.into_iter().collect()
}

pub fn update_fees_state_ix(d: &Dep, m: &MarketInfo) -> Instruction {
    let mut ix = store_ix(
        gmsol_store::accounts::UpdateFeesState {
            authority: d.keeper,
            store: d.store,
            token_map: d.token_map,
            oracle: d.oracle,
            market: m.market,
            event_authority: d.event_authority,
            program: gmsol_store::ID,
        },
        gmsol_store::instruction::UpdateFeesState {},
    );
    ix.accounts.extend(feeds_and_markets(d, &market_feed_tokens(d, m), &[], &[]));
    ix
}

pub fn update_adl_state_ix(d: &Dep, m: &MarketInfo, is_long: bool) -> Instruction {
    let mut ix = store_ix(
        gmsol_store::accounts::UpdateAdlState {
            authority: d.keeper,
            store: d.store,
            token_map: d.token_map,
            oracle: d.oracle,
            market: m.market,
            chainlink_program: None,
        },
        gmsol_store::instruction::UpdateAdlState { is_long },
    );
    ix.accounts.extend(feeds_and_markets(d, &market_feed_tokens(d, m), &[], &[]));
    ix
}
