//! Deployment fixture: programs, store, roles, tokens, token map, custom price feeds through the real mock
//! Chainlink verifier, oracle, vaults, markets, funded users.

use anchor_lang::{InstructionData, ToAccountMetas};
use solana_program::{
    account_info::AccountInfo, entrypoint::ProgramResult, instruction::Instruction, program_pack::Pack,
    pubkey::Pubkey, system_program,
};

use crate::rt::{set_dispatch, TxOutcome, World};

pub const ALL_ROLES: &[&str] = &[
    "ORACLE_CONTROLLER",
    "GT_CONTROLLER",
    "MARKET_KEEPER",
    "ORDER_KEEPER",
    "FEATURE_KEEPER",
    "CONFIG_KEEPER",
    "PRICE_KEEPER",
    "MIGRATION_KEEPER",
    "MARKET_CONFIG_KEEPER",
];

pub fn program_table(program_id: &Pubkey, accounts: &'static [AccountInfo<'static>], data: &[u8]) -> Option<ProgramResult> {
    Some(if *program_id == gmsol_store::ID {
        gmsol_store::entry(program_id, accounts, data)
    } else if *program_id == spl_token::ID {
        spl_token::processor::Processor::process(program_id, accounts, data)
    } else if *program_id == spl_associated_token_account::ID {
        spl_associated_token_account::processor::process_instruction(program_id, accounts, data)
    } else if *program_id == spl_token_2022::ID {
        spl_token_2022::processor::Processor::process(program_id, accounts, data)
    } else if *program_id == gmsol_mock_chainlink_verifier::ID {
        gmsol_mock_chainlink_verifier::entry(program_id, accounts, data)
    } else if *program_id == gmsol_timelock::ID {
        gmsol_timelock::entry(program_id, accounts, data)
    } else if *program_id == gmsol_treasury::ID {
        gmsol_treasury::entry(program_id, accounts, data)
    } else if *program_id == gmsol_competition::ID {
        gmsol_competition::entry(program_id, accounts, data)
    } else if *program_id == gmsol_liquidity_provider::ID {
        gmsol_liquidity_provider::entry(program_id, accounts, data)
    } else if *program_id == gmsol_callback::ID {
        gmsol_callback::entry(program_id, accounts, data)
    } else {
        return None;
    })
}

pub fn all_program_ids() -> Vec<Pubkey> {
    vec![
        system_program::ID,
        spl_token::ID,
        spl_token_2022::ID,
        spl_associated_token_account::ID,
        gmsol_store::ID,
        gmsol_mock_chainlink_verifier::ID,
        gmsol_timelock::ID,
        gmsol_treasury::ID,
        gmsol_competition::ID,
        gmsol_liquidity_provider::ID,
        gmsol_callback::ID,
    ]
}

/// Must be called on every thread that executes transactions.
pub fn init_thread() {
    crate::rt::install_stubs();
    set_dispatch(program_table);
}

pub fn store_ix(accounts: impl ToAccountMetas, args: impl InstructionData) -> Instruction {
    Instruction {
        program_id: gmsol_store::ID,
        accounts: accounts.to_account_metas(None),
        data: args.data(),
    }
}

pub fn any_ix(program_id: Pubkey, accounts: impl ToAccountMetas, args: impl InstructionData) -> Instruction {
    Instruction {
        program_id,
        accounts: accounts.to_account_metas(None),
        data: args.data(),
    }
}

pub fn ata(owner: &Pubkey, mint: &Pubkey) -> Pubkey {
    spl_associated_token_account::get_associated_token_address(owner, mint)
}

pub fn ata_2022(owner: &Pubkey, mint: &Pubkey) -> Pubkey {
    spl_associated_token_account::get_associated_token_address_with_program_id(owner, mint, &spl_token_2022::ID)
}

pub fn token_balance(w: &World, k: &Pubkey) -> u64 {
    w.accounts
        .get(k)
        .and_then(|a| {
            if a.owner == spl_token::ID {
                spl_token::state::Account::unpack(&a.data).ok().map(|x| x.amount)
            } else if a.owner == spl_token_2022::ID && a.data.len() >= 165 {
                spl_token::state::Account::unpack(&a.data[..165]).ok().map(|x| x.amount)
            } else {
                None
            }
        })
        .unwrap_or(0)
}

pub fn mint_supply(w: &World, mint: &Pubkey) -> u64 {
    w.accounts
        .get(mint)
        .and_then(|a| spl_token::state::Mint::unpack(&a.data[..82.min(a.data.len())]).ok().map(|x| x.supply))
        .unwrap_or(0)
}

/// Read a zero-copy (Pod) account payload through an aligned copy.
pub fn read_pod<T: bytemuck::Pod>(w: &World, k: &Pubkey) -> Option<T> {
    let d = w.data(k)?;
    let n = std::mem::size_of::<T>();
    if d.len() < 8 + n {
        return None;
    }
    Some(bytemuck::pod_read_unaligned(&d[8..8 + n]))
}

pub fn read_pod_bytes<T: bytemuck::Pod>(d: &[u8]) -> Option<T> {
    let n = std::mem::size_of::<T>();
    if d.len() < 8 + n {
        return None;
    }
    Some(bytemuck::pod_read_unaligned(&d[8..8 + n]))
}

#[derive(Clone, Debug)]
pub struct TokenInfo {
    pub mint: Pubkey,
    pub decimals: u8,
    pub precision: u8,
    pub name: String,
    pub feed_id: [u8; 32],
    pub price_feed: Pubkey,
    pub synthetic: bool,
    /// Report schema version encoded in the feed id (3, 8, 11 …).
    pub schema: u16,
    pub heartbeat: u32,
}

#[derive(Clone, Debug)]
pub struct MarketInfo {
    pub market: Pubkey,
    pub market_token: Pubkey,
    pub index: usize,
    pub long: usize,
    pub short: usize,
    pub name: String,
}

impl MarketInfo {
    pub fn is_pure(&self) -> bool {
        self.long == self.short
    }
}

#[derive(Clone, Debug, Default)]
pub struct Dep {
    pub store: Pubkey,
    pub store_wallet: Pubkey,
    pub event_authority: Pubkey,
    pub admin: Pubkey,
    /// Holds every keeper role.
    pub keeper: Pubkey,
    pub token_map: Pubkey,
    pub oracle: Pubkey,
    pub verifier_account: Pubkey,
    pub access_controller: Pubkey,
    pub tokens: Vec<TokenInfo>,
    pub markets: Vec<MarketInfo>,
    pub users: Vec<Pubkey>,
    pub receiver: Pubkey,
    pub holding: Pubkey,
}

#[derive(Clone, Debug)]
pub struct TokenSpec {
    pub name: &'static str,
    pub decimals: u8,
    pub precision: u8,
    pub synthetic: bool,
    pub schema: u16,
    pub heartbeat: u32,
}

#[derive(Clone, Debug)]
pub struct DeployOpts {
    pub tokens: Vec<TokenSpec>,
    /// (index token idx, long idx, short idx)
    pub markets: Vec<(usize, usize, usize)>,
    pub n_users: usize,
    pub user_token_amount: u64,
    pub start_ts: i64,
    pub start_slot: u64,
}

impl Default for DeployOpts {
    fn default() -> Self {
        DeployOpts {
            tokens: vec![
                TokenSpec { name: "SOL", decimals: 9, precision: 4, synthetic: false, schema: 3, heartbeat: 120 },
                TokenSpec { name: "USDC", decimals: 6, precision: 6, synthetic: false, schema: 3, heartbeat: 120 },
            ],
            markets: vec![(0, 0, 1)],
            n_users: 3,
            user_token_amount: 1_000_000_000_000_000,
            start_ts: 1_700_000_000,
            start_slot: 1000,
        }
    }
}

pub fn expect_ok(label: &str, out: TxOutcome) {
    if !out.ok {
        panic!("deploy step `{label}` failed: {} {:?} {:?} {:?}", out.class(), out.error, out.panic, out.runtime_rule);
    }
}

pub fn feed_id_for(schema: u16, n: u8) -> [u8; 32] {
    let mut fid = [0u8; 32];
    fid[0..2].copy_from_slice(&schema.to_be_bytes());
    fid[30] = 0x5a;
    fid[31] = n;
    fid
}

pub fn find_store() -> Pubkey {
    Pubkey::find_program_address(&[b"data_store", &gmsol_utils::to_seed("")], &gmsol_store::ID).0
}

pub fn vault_of(store: &Pubkey, mint: &Pubkey) -> Pubkey {
    Pubkey::find_program_address(&[b"market_vault", store.as_ref(), mint.as_ref()], &gmsol_store::ID).0
}

pub fn price_feed_of(store: &Pubkey, authority: &Pubkey, index: u16, provider: u8, token: &Pubkey) -> Pubkey {
    Pubkey::find_program_address(
        &[b"price_feed", store.as_ref(), authority.as_ref(), &index.to_le_bytes(), &[provider], token.as_ref()],
        &gmsol_store::ID,
    )
    .0
}

/// Chainlink data streams provider kind index (see `PriceProviderKind`).
pub const PROVIDER_CHAINLINK_DS: u8 = 0;

impl Dep {
    pub fn vault(&self, token_idx: usize) -> Pubkey {
        vault_of(&self.store, &self.tokens[token_idx].mint)
    }

    pub fn mint(&self, token_idx: usize) -> Pubkey {
        self.tokens[token_idx].mint
    }
}

/// Deploy programs and the store with admin and keeper (all roles enabled and granted).
pub fn deploy_store(w: &mut World) -> Dep {
    init_thread();
    for pid in all_program_ids() {
        w.add_program(pid);
    }
    let mut d = Dep::default();
    d.admin = w.new_key("admin");
    d.keeper = w.new_key("keeper");
    d.receiver = d.admin;
    d.holding = d.admin;
    for k in [d.admin, d.keeper] {
        w.fund(&k, 1_000_000_000_000_000);
    }
    d.store = find_store();
    d.store_wallet = Pubkey::find_program_address(&[b"store_wallet", d.store.as_ref()], &gmsol_store::ID).0;
    d.event_authority = Pubkey::find_program_address(&[b"__event_authority"], &gmsol_store::ID).0;
    expect_ok(
        "initialize",
        w.process(store_ix(
            gmsol_store::accounts::Initialize {
                payer: d.admin,
                authority: None,
                receiver: None,
                holding: None,
                store: d.store,
                system_program: system_program::ID,
            },
            gmsol_store::instruction::Initialize { key: String::new() },
        )),
    );
    for role in ALL_ROLES {
        expect_ok(
            "enable_role",
            w.process(store_ix(
                gmsol_store::accounts::EnableRole { authority: d.admin, store: d.store },
                gmsol_store::instruction::EnableRole { role: role.to_string() },
            )),
        );
        expect_ok(
            "grant_role",
            w.process(store_ix(
                gmsol_store::accounts::GrantRole { authority: d.admin, store: d.store },
                gmsol_store::instruction::GrantRole { user: d.keeper, role: role.to_string() },
            )),
        );
    }
    d
}

pub fn create_mint(w: &mut World, authority: &Pubkey, decimals: u8, tag: &str) -> Pubkey {
    let m = w.new_key(tag);
    w.create_raw_account(&m, &spl_token::ID, 82);
    expect_ok(
        "init mint",
        w.process(spl_token::instruction::initialize_mint2(&spl_token::ID, &m, authority, None, decimals).unwrap()),
    );
    m
}

pub fn push_token_ix(d: &Dep, t: &TokenInfo, name: &str, new: bool, enable: bool) -> Instruction {
    let mut feeds = vec![Pubkey::default(); 4];
    feeds[PROVIDER_CHAINLINK_DS as usize] = Pubkey::new_from_array(t.feed_id);
    let builder = gmsol_store::states::token_config::UpdateTokenConfigParams {
        heartbeat_duration: t.heartbeat,
        precision: t.precision,
        feeds,
        timestamp_adjustments: vec![0; 4],
        expected_provider: Some(PROVIDER_CHAINLINK_DS),
    };
    if t.synthetic {
        store_ix(
            gmsol_store::accounts::PushToTokenMapSynthetic {
                authority: d.keeper,
                store: d.store,
                token_map: d.token_map,
                system_program: system_program::ID,
            },
            gmsol_store::instruction::PushToTokenMapSynthetic {
                name: name.to_string(),
                token: t.mint,
                token_decimals: t.decimals,
                builder,
                enable,
                new,
            },
        )
    } else {
        store_ix(
            gmsol_store::accounts::PushToTokenMap {
                authority: d.keeper,
                store: d.store,
                token_map: d.token_map,
                token: t.mint,
                system_program: system_program::ID,
            },
            gmsol_store::instruction::PushToTokenMap {
                name: name.to_string(),
                builder,
                enable,
                new,
            },
        )
    }
}

pub fn init_market_ix(d: &Dep, index: &Pubkey, long: &Pubkey, short: &Pubkey, name: &str, enable: bool) -> (Instruction, Pubkey, Pubkey) {
    let (market_token, _) = Pubkey::find_program_address(
        &[b"market_token_mint", d.store.as_ref(), index.as_ref(), long.as_ref(), short.as_ref()],
        &gmsol_store::ID,
    );
    let (market, _) = Pubkey::find_program_address(&[b"market", d.store.as_ref(), market_token.as_ref()], &gmsol_store::ID);
    let ix = store_ix(
        gmsol_store::accounts::InitializeMarket {
            authority: d.keeper,
            store: d.store,
            market_token_mint: market_token,
            long_token_mint: *long,
            short_token_mint: *short,
            market,
            token_map: d.token_map,
            long_token_vault: vault_of(&d.store, long),
            short_token_vault: vault_of(&d.store, short),
            system_program: system_program::ID,
            token_program: spl_token::ID,
        },
        gmsol_store::instruction::InitializeMarket {
            index_token_mint: *index,
            name: name.to_string(),
            enable,
        },
    );
    (ix, market, market_token)
}

/// Full deployment: store + token map + feeds + oracle + vaults + markets + funded users.
pub fn deploy_full(w: &mut World, opts: &DeployOpts) -> Dep {
    w.clock.unix_timestamp = opts.start_ts;
    w.clock.slot = opts.start_slot;
    let mut d = deploy_store(w);

    // Token map.
    d.token_map = w.new_key("token_map");
    expect_ok(
        "initialize_token_map",
        w.process(store_ix(
            gmsol_store::accounts::InitializeTokenMap {
                payer: d.keeper,
                store: d.store,
                token_map: d.token_map,
                system_program: system_program::ID,
            },
            gmsol_store::instruction::InitializeTokenMap {},
        )),
    );
    expect_ok(
        "set_token_map",
        w.process(store_ix(
            gmsol_store::accounts::SetTokenMap { authority: d.keeper, store: d.store, token_map: d.token_map },
            gmsol_store::instruction::SetTokenMap {},
        )),
    );

    // Mock verifier.
    let verifier = gmsol_mock_chainlink_verifier::ID;
    d.verifier_account = Pubkey::find_program_address(&[b"verifier"], &verifier).0;
    d.access_controller = Pubkey::find_program_address(&[b"access_controller"], &verifier).0;
    expect_ok(
        "verifier init",
        w.process(any_ix(
            verifier,
            gmsol_mock_chainlink_verifier::accounts::Initialize {
                payer: d.admin,
                verifier_account: d.verifier_account,
                access_controller: d.access_controller,
                system_program: system_program::ID,
            },
            gmsol_mock_chainlink_verifier::instruction::Initialize { user: d.store },
        )),
    );

    // Tokens, token configs and price feeds.
    for (i, spec) in opts.tokens.iter().enumerate() {
        let mint = if spec.synthetic {
            w.new_key("synthetic")
        } else {
            create_mint(w, &d.admin, spec.decimals, "mint")
        };
        let feed_id = feed_id_for(spec.schema, i as u8 + 1);
        let price_feed = price_feed_of(&d.store, &d.keeper, 0, PROVIDER_CHAINLINK_DS, &mint);
        let t = TokenInfo {
            mint,
            decimals: spec.decimals,
            precision: spec.precision,
            name: spec.name.to_string(),
            feed_id,
            price_feed,
            synthetic: spec.synthetic,
            schema: spec.schema,
            heartbeat: spec.heartbeat,
        };
        expect_ok("push_to_token_map", w.process(push_token_ix(&d, &t, spec.name, true, true)));
        expect_ok(
            "initialize_price_feed",
            w.process(store_ix(
                gmsol_store::accounts::InitializePriceFeed {
                    authority: d.keeper,
                    store: d.store,
                    price_feed,
                    system_program: system_program::ID,
                },
                gmsol_store::instruction::InitializePriceFeed {
                    index: 0,
                    provider: PROVIDER_CHAINLINK_DS,
                    token: mint,
                    feed_id: Pubkey::new_from_array(feed_id),
                },
            )),
        );
        d.tokens.push(t);
    }

    // Oracle.
    d.oracle = w.new_key("oracle");
    w.create_raw_account(&d.oracle, &gmsol_store::ID, 8 + std::mem::size_of::<gmsol_store::states::Oracle>());
    expect_ok(
        "initialize_oracle",
        w.process(store_ix(
            gmsol_store::accounts::InitializeOracle {
                payer: d.keeper,
                authority: d.keeper,
                store: d.store,
                oracle: d.oracle,
                system_program: system_program::ID,
            },
            gmsol_store::instruction::InitializeOracle {},
        )),
    );

    // Vaults.
    for t in d.tokens.clone().iter().filter(|t| !t.synthetic) {
        expect_ok(
            "initialize_market_vault",
            w.process(store_ix(
                gmsol_store::accounts::InitializeMarketVault {
                    authority: d.keeper,
                    store: d.store,
                    mint: t.mint,
                    vault: vault_of(&d.store, &t.mint),
                    system_program: system_program::ID,
                    token_program: spl_token::ID,
                },
                gmsol_store::instruction::InitializeMarketVault {},
            )),
        );
    }

    // Markets.
    for (n, (index, long, short)) in opts.markets.iter().enumerate() {
        let name = format!("M{n}");
        let (ix, market, market_token) =
            init_market_ix(&d, &d.tokens[*index].mint, &d.tokens[*long].mint, &d.tokens[*short].mint, &name, true);
        expect_ok("initialize_market", w.process(ix));
        expect_ok(
            "initialize_market_vault (market token)",
            w.process(store_ix(
                gmsol_store::accounts::InitializeMarketVault {
                    authority: d.keeper,
                    store: d.store,
                    mint: market_token,
                    vault: vault_of(&d.store, &market_token),
                    system_program: system_program::ID,
                    token_program: spl_token::ID,
                },
                gmsol_store::instruction::InitializeMarketVault {},
            )),
        );
        d.markets.push(MarketInfo {
            market,
            market_token,
            index: *index,
            long: *long,
            short: *short,
            name,
        });
    }

    // Users.
    for _ in 0..opts.n_users {
        let u = w.new_key("user");
        w.fund(&u, 1_000_000_000_000);
        for t in d.tokens.clone().iter().filter(|t| !t.synthetic) {
            expect_ok(
                "create user ata",
                w.process(
                    spl_associated_token_account::instruction::create_associated_token_account_idempotent(
                        &u, &u, &t.mint, &spl_token::ID,
                    ),
                ),
            );
            expect_ok(
                "mint_to",
                w.process(
                    spl_token::instruction::mint_to(&spl_token::ID, &t.mint, &ata(&u, &t.mint), &d.admin, &[], opts.user_token_amount)
                        .unwrap(),
                ),
            );
        }
        d.users.push(u);
    }
    d
}
