//! In-process Solana runtime stub: accounts database, transaction atomicity, instruction loader with
//! host-aligned account images, CPI with PDA signing, sysvars, return data, event capture.
//!
//! Real: every program `entry`, SPL Token / Token-2022 / ATA processors, Anchor.
//! Stub: everything in this file.

use std::cell::RefCell;
use std::collections::BTreeMap;
use std::panic::{catch_unwind, AssertUnwindSafe};
use std::rc::Rc;

use solana_program::{
    account_info::AccountInfo,
    clock::Clock,
    entrypoint::{ProgramResult, MAX_PERMITTED_DATA_INCREASE},
    instruction::Instruction,
    program_error::ProgramError,
    program_stubs::{set_syscall_stubs, SyscallStubs},
    pubkey::Pubkey,
    rent::Rent,
    system_instruction::SystemInstruction,
    system_program,
};

#[derive(Clone, Debug, Default, PartialEq, Eq)]
pub struct Acc {
    pub lamports: u64,
    pub data: Vec<u8>,
    pub owner: Pubkey,
    pub executable: bool,
}

/// The only durable state of the simulated cluster.
#[derive(Clone, Default)]
pub struct World {
    pub accounts: BTreeMap<Pubkey, Acc>,
    pub clock: Clock,
    pub last_restart_slot: u64,
    /// Monotone counter used to derive fresh keys deterministically.
    pub key_counter: u64,
    pub tx_count: u64,
}

#[derive(Clone, Debug)]
pub struct CpiRecord {
    pub caller: Pubkey,
    pub depth: usize,
    pub ix: Instruction,
    /// Which keys were signers by PDA seeds at this call.
    pub pda_signers: Vec<Pubkey>,
}

#[derive(Clone, Debug, Default)]
pub struct TxOutcome {
    pub ok: bool,
    /// Index of the failing instruction.
    pub failed_ix: Option<usize>,
    pub error: Option<ProgramError>,
    /// Panic location and message if a program panicked.
    pub panic: Option<(String, String)>,
    /// Runtime rule violated after the instruction (treated as a failed transaction).
    pub runtime_rule: Option<String>,
    pub cpis: Vec<CpiRecord>,
    /// `sol_log_data` payloads.
    pub log_data: Vec<Vec<Vec<u8>>>,
    pub return_data: Option<(Pubkey, Vec<u8>)>,
}

impl TxOutcome {
    /// Custom error code (Anchor / program), if any.
    pub fn custom_code(&self) -> Option<u32> {
        match &self.error {
            Some(ProgramError::Custom(c)) => Some(*c),
            _ => None,
        }
    }

    pub fn class(&self) -> String {
        if self.ok {
            "ok".into()
        } else if self.panic.is_some() {
            "panic".into()
        } else if let Some(r) = &self.runtime_rule {
            format!("rule:{r}")
        } else {
            match &self.error {
                Some(ProgramError::Custom(c)) => format!("e{c}"),
                Some(e) => format!("{e:?}"),
                None => "failed".into(),
            }
        }
    }

    /// Anchor `emit_cpi!` event payloads (discriminator + borsh body) emitted by `program`.
    pub fn cpi_events(&self, program: &Pubkey) -> Vec<&[u8]> {
        // anchor_lang::event::EVENT_IX_TAG_LE
        const TAG: [u8; 8] = [0xe4, 0x45, 0xa5, 0x2e, 0x51, 0xcb, 0x9a, 0x1d];
        self.cpis
            .iter()
            .filter(|c| c.ix.program_id == *program && c.caller == *program && c.ix.data.len() >= 16 && c.ix.data[..8] == TAG)
            .map(|c| &c.ix.data[8..])
            .collect()
    }
}

/// Execution context of the transaction currently running on this thread.
#[derive(Default)]
struct ExecCtx {
    clock: Clock,
    last_restart_slot: u64,
    return_data: Option<(Pubkey, Vec<u8>)>,
    stack: Vec<Pubkey>,
    cpis: Vec<CpiRecord>,
    log_data: Vec<Vec<Vec<u8>>>,
    /// Fault injection: fail the n-th CPI (1-based) of this transaction with this error.
    fail_cpi_at: Option<u64>,
    cpi_seen: u64,
}

thread_local! {
    static CTX: RefCell<ExecCtx> = RefCell::new(ExecCtx::default());
    static DISPATCH: RefCell<Option<DispatchFn>> = const { RefCell::new(None) };
}

pub type DispatchFn = fn(&Pubkey, &'static [AccountInfo<'static>], &[u8]) -> Option<ProgramResult>;

/// Install the program table for this thread (system program is built in).
pub fn set_dispatch(f: DispatchFn) {
    DISPATCH.with(|d| *d.borrow_mut() = Some(f));
}

struct Stubs;

static INSTALL: std::sync::Once = std::sync::Once::new();

pub fn install_stubs() {
    INSTALL.call_once(|| {
        set_syscall_stubs(Box::new(Stubs));
    });
}

fn dispatch(program_id: &Pubkey, accounts: &[AccountInfo<'static>], data: &[u8]) -> ProgramResult {
    CTX.with(|c| c.borrow_mut().stack.push(*program_id));
    let res = if *program_id == system_program::ID {
        system_process(accounts, data)
    } else {
        let f = DISPATCH.with(|d| *d.borrow());
        // SAFETY: the account infos point into per-instruction images that outlive the call.
        let accounts: &'static [AccountInfo<'static>] = unsafe { std::mem::transmute(accounts) };
        match f.and_then(|f| f(program_id, accounts, data)) {
            Some(r) => r,
            None => Err(ProgramError::IncorrectProgramId),
        }
    };
    CTX.with(|c| c.borrow_mut().stack.pop());
    res
}

fn system_process(accounts: &[AccountInfo], data: &[u8]) -> ProgramResult {
    let ix: SystemInstruction =
        bincode::deserialize(data).map_err(|_| ProgramError::InvalidInstructionData)?;
    let need = |n: usize| -> Result<(), ProgramError> {
        if accounts.len() < n {
            Err(ProgramError::NotEnoughAccountKeys)
        } else {
            Ok(())
        }
    };
    match ix {
        SystemInstruction::CreateAccount {
            lamports,
            space,
            owner,
        } => {
            need(2)?;
            let from = &accounts[0];
            let to = &accounts[1];
            if !from.is_signer || !to.is_signer {
                return Err(ProgramError::MissingRequiredSignature);
            }
            if to.lamports() > 0 || !to.data_is_empty() || *to.owner != system_program::ID {
                return Err(ProgramError::AccountAlreadyInitialized);
            }
            if *from.owner != system_program::ID || !from.data_is_empty() {
                return Err(ProgramError::InvalidArgument);
            }
            if from.lamports() < lamports {
                return Err(ProgramError::InsufficientFunds);
            }
            if space > 10 * 1024 * 1024 {
                return Err(ProgramError::InvalidRealloc);
            }
            **from.try_borrow_mut_lamports()? -= lamports;
            **to.try_borrow_mut_lamports()? += lamports;
            to.realloc(space as usize, true)?;
            to.assign(&owner);
            Ok(())
        }
        SystemInstruction::Transfer { lamports } => {
            need(2)?;
            let from = &accounts[0];
            let to = &accounts[1];
            if !from.is_signer {
                return Err(ProgramError::MissingRequiredSignature);
            }
            if *from.owner != system_program::ID || !from.data_is_empty() {
                return Err(ProgramError::InvalidArgument);
            }
            if from.lamports() < lamports {
                return Err(ProgramError::InsufficientFunds);
            }
            if from.key == to.key {
                return Ok(());
            }
            **from.try_borrow_mut_lamports()? -= lamports;
            **to.try_borrow_mut_lamports()? += lamports;
            Ok(())
        }
        SystemInstruction::Allocate { space } => {
            need(1)?;
            let a = &accounts[0];
            if !a.is_signer {
                return Err(ProgramError::MissingRequiredSignature);
            }
            if *a.owner != system_program::ID || !a.data_is_empty() {
                return Err(ProgramError::AccountAlreadyInitialized);
            }
            a.realloc(space as usize, true)?;
            Ok(())
        }
        SystemInstruction::Assign { owner } => {
            need(1)?;
            let a = &accounts[0];
            if !a.is_signer {
                return Err(ProgramError::MissingRequiredSignature);
            }
            if *a.owner != system_program::ID {
                return Err(ProgramError::IllegalOwner);
            }
            a.assign(&owner);
            Ok(())
        }
        _ => Err(ProgramError::InvalidInstructionData),
    }
}

impl SyscallStubs for Stubs {
    fn sol_log(&self, _message: &str) {}
    fn sol_log_compute_units(&self) {}
    fn sol_remaining_compute_units(&self) -> u64 {
        1_400_000
    }
    fn sol_log_data(&self, fields: &[&[u8]]) {
        CTX.with(|c| {
            c.borrow_mut()
                .log_data
                .push(fields.iter().map(|f| f.to_vec()).collect())
        });
    }
    fn sol_get_clock_sysvar(&self, var_addr: *mut u8) -> u64 {
        CTX.with(|c| unsafe { *(var_addr as *mut Clock) = c.borrow().clock.clone() });
        0
    }
    fn sol_get_rent_sysvar(&self, var_addr: *mut u8) -> u64 {
        unsafe { *(var_addr as *mut Rent) = Rent::default() };
        0
    }
    fn sol_get_last_restart_slot(&self, var_addr: *mut u8) -> u64 {
        CTX.with(|c| unsafe { *(var_addr as *mut u64) = c.borrow().last_restart_slot });
        0
    }
    fn sol_set_return_data(&self, data: &[u8]) {
        CTX.with(|c| {
            let mut c = c.borrow_mut();
            let pid = c.stack.last().copied().unwrap_or_default();
            c.return_data = Some((pid, data.to_vec()));
        });
    }
    fn sol_get_return_data(&self) -> Option<(Pubkey, Vec<u8>)> {
        CTX.with(|c| c.borrow().return_data.clone())
    }
    fn sol_get_stack_height(&self) -> u64 {
        CTX.with(|c| c.borrow().stack.len() as u64)
    }
    fn sol_invoke_signed(
        &self,
        instruction: &Instruction,
        account_infos: &[AccountInfo],
        signers_seeds: &[&[&[u8]]],
    ) -> ProgramResult {
        let (caller, depth, inject) = CTX.with(|c| {
            let mut c = c.borrow_mut();
            c.cpi_seen += 1;
            let inject = c.fail_cpi_at == Some(c.cpi_seen);
            (c.stack.last().copied().unwrap_or_default(), c.stack.len(), inject)
        });
        if depth >= 5 {
            // max invoke stack height: 5 (top level = 1)
            return Err(ProgramError::Custom(0xdead_0001));
        }
        let pda_signers: Vec<Pubkey> = signers_seeds
            .iter()
            .map(|seeds| {
                Pubkey::create_program_address(seeds, &caller).map_err(|_| ProgramError::InvalidSeeds)
            })
            .collect::<Result<_, _>>()?;
        CTX.with(|c| {
            c.borrow_mut().cpis.push(CpiRecord {
                caller,
                depth,
                ix: instruction.clone(),
                pda_signers: pda_signers.clone(),
            })
        });
        if inject {
            return Err(ProgramError::Custom(0xdead_0002));
        }
        // The callee program account must be among the passed infos (as on chain).
        let mut callee: Vec<AccountInfo> = Vec::with_capacity(instruction.accounts.len());
        for meta in &instruction.accounts {
            let info = account_infos
                .iter()
                .find(|i| *i.key == meta.pubkey)
                .ok_or(ProgramError::NotEnoughAccountKeys)?;
            if meta.is_signer && !(info.is_signer || pda_signers.contains(&meta.pubkey)) {
                return Err(ProgramError::MissingRequiredSignature);
            }
            if meta.is_writable && !info.is_writable {
                return Err(ProgramError::Custom(0xdead_0003));
            }
            let mut c = info.clone();
            c.is_signer = meta.is_signer;
            c.is_writable = meta.is_writable;
            callee.push(c);
        }
        // SAFETY: lifetimes are erased; all infos point into the per-instruction images, which outlive
        // the whole top-level instruction.
        let callee_static: &[AccountInfo<'static>] = unsafe { std::mem::transmute(&callee[..]) };
        dispatch(&instruction.program_id, callee_static, &instruction.data)
    }
}

/// One account image laid out like a slice of the BPF loader input, 16-byte aligned so that
/// `data + 8` (the zero-copy payload after the discriminator) is 16-aligned on the host.
struct Image {
    key: Pubkey,
    buf: Vec<u128>,
}

const HDR: usize = 88;

fn image(key: &Pubkey, acc: &Acc) -> Image {
    let total = HDR + acc.data.len() + MAX_PERMITTED_DATA_INCREASE + 16;
    let mut buf = vec![0u128; total.div_ceil(16)];
    let p = buf.as_mut_ptr() as *mut u8;
    unsafe {
        let b = std::slice::from_raw_parts_mut(p, total);
        b[0] = 0xff;
        b[3] = acc.executable as u8;
        b[4..8].copy_from_slice(&(acc.data.len() as u32).to_le_bytes());
        b[8..40].copy_from_slice(key.as_ref());
        b[40..72].copy_from_slice(acc.owner.as_ref());
        b[72..80].copy_from_slice(&acc.lamports.to_le_bytes());
        b[80..88].copy_from_slice(&(acc.data.len() as u64).to_le_bytes());
        b[88..88 + acc.data.len()].copy_from_slice(&acc.data);
    }
    Image { key: *key, buf }
}

fn info_of(img: &mut Image, is_signer: bool, is_writable: bool) -> AccountInfo<'static> {
    let p = img.buf.as_mut_ptr() as *mut u8;
    unsafe {
        let len = *(p.add(80) as *const u64) as usize;
        AccountInfo {
            key: &*(p.add(8) as *const Pubkey),
            lamports: Rc::new(RefCell::new(&mut *(p.add(72) as *mut u64))),
            data: Rc::new(RefCell::new(std::slice::from_raw_parts_mut(p.add(88), len))),
            owner: &*(p.add(40) as *const Pubkey),
            rent_epoch: 0,
            is_signer,
            is_writable,
            executable: *p.add(3) != 0,
        }
    }
}

fn read_back(img: &Image) -> Acc {
    let p = img.buf.as_ptr() as *const u8;
    let bytes = unsafe { std::slice::from_raw_parts(p, img.buf.len() * 16) };
    let owner = Pubkey::new_from_array(bytes[40..72].try_into().unwrap());
    let lamports = u64::from_le_bytes(bytes[72..80].try_into().unwrap());
    let len = u64::from_le_bytes(bytes[80..88].try_into().unwrap()) as usize;
    let data = bytes[88..88 + len].to_vec();
    let executable = bytes[3] != 0;
    Acc {
        lamports,
        data,
        owner,
        executable,
    }
}

/// Options for one transaction (fault injection at the runtime level).
#[derive(Clone, Debug, Default)]
pub struct TxOpts {
    /// Fail the n-th CPI (1-based) of the transaction.
    pub fail_cpi_at: Option<u64>,
    /// Fee payer (always a writable signer). Default: the first signer of the message.
    pub payer: Option<Pubkey>,
}

impl World {
    pub fn new(unix_timestamp: i64, slot: u64) -> Self {
        let mut w = World::default();
        w.clock.unix_timestamp = unix_timestamp;
        w.clock.slot = slot;
        w.clock.epoch = 1;
        w
    }

    /// Deterministic fresh key (never `Pubkey::new_unique`).
    pub fn new_key(&mut self, tag: &str) -> Pubkey {
        self.key_counter += 1;
        let h = solana_program::hash::hashv(&[b"chainsim-key", tag.as_bytes(), &self.key_counter.to_le_bytes()]);
        Pubkey::new_from_array(h.to_bytes())
    }

    pub fn add_program(&mut self, id: Pubkey) {
        self.accounts.insert(
            id,
            Acc {
                lamports: 1,
                data: vec![],
                owner: Pubkey::default(),
                executable: true,
            },
        );
    }

    pub fn fund(&mut self, k: &Pubkey, lamports: u64) {
        let e = self.accounts.entry(*k).or_insert_with(|| Acc {
            owner: system_program::ID,
            ..Default::default()
        });
        e.lamports += lamports;
    }

    /// Top-level creation of a (possibly large) program-owned zeroed account, as a client-side
    /// `system_instruction::create_account` would do.
    pub fn create_raw_account(&mut self, k: &Pubkey, owner: &Pubkey, space: usize) {
        self.accounts.insert(
            *k,
            Acc {
                lamports: Rent::default().minimum_balance(space),
                data: vec![0; space],
                owner: *owner,
                executable: false,
            },
        );
    }

    pub fn get(&self, k: &Pubkey) -> Option<&Acc> {
        self.accounts.get(k)
    }

    pub fn data(&self, k: &Pubkey) -> Option<&[u8]> {
        self.accounts.get(k).map(|a| &a.data[..])
    }

    pub fn lamports(&self, k: &Pubkey) -> u64 {
        self.accounts.get(k).map(|a| a.lamports).unwrap_or(0)
    }

    pub fn advance(&mut self, slots: u64, seconds: i64) {
        self.clock.slot = self.clock.slot.saturating_add(slots);
        self.clock.unix_timestamp = self.clock.unix_timestamp.saturating_add(seconds);
    }

    /// Execute one instruction against the database; on success the touched accounts are written
    /// back. Returns the result and pushes undo records.
    fn process_ix(
        &mut self,
        ix: &Instruction,
        msg_signers: &[Pubkey],
        msg_writable: &[Pubkey],
        undo: &mut Vec<(Pubkey, Option<Acc>)>,
        out: &mut TxOutcome,
    ) -> Result<(), ()> {
        if !self.accounts.get(&ix.program_id).map_or(false, |a| a.executable) {
            out.error = Some(ProgramError::IncorrectProgramId);
            return Err(());
        }
        let mut images: Vec<Image> = Vec::new();
        let mut before: Vec<Acc> = Vec::new();
        for m in &ix.accounts {
            if !images.iter().any(|i| i.key == m.pubkey) {
                let acc = self.accounts.get(&m.pubkey).cloned().unwrap_or_else(|| Acc {
                    owner: system_program::ID,
                    ..Default::default()
                });
                images.push(image(&m.pubkey, &acc));
                before.push(acc);
            }
        }
        let flags: Vec<(bool, bool)> = images
            .iter()
            .map(|img| {
                // Signer and writable privileges are message-wide on Solana (the union over all
                // instructions of the transaction; the fee payer is always a writable signer).
                let s = msg_signers.contains(&img.key);
                let w = msg_writable.contains(&img.key);
                (s, w)
            })
            .collect();
        let mut uniq: Vec<AccountInfo<'static>> = Vec::new();
        for (img, (s, w)) in images.iter_mut().zip(flags.iter()) {
            uniq.push(info_of(img, *s, *w));
        }
        let infos: Vec<AccountInfo<'static>> = ix
            .accounts
            .iter()
            .map(|m| uniq.iter().find(|i| *i.key == m.pubkey).unwrap().clone())
            .collect();
        let res = catch_unwind(AssertUnwindSafe(|| dispatch(&ix.program_id, &infos, &ix.data)));
        drop(infos);
        drop(uniq);
        // After a panic the stack may be unbalanced.
        let res = match res {
            Ok(r) => r,
            Err(_) => {
                CTX.with(|c| c.borrow_mut().stack.clear());
                out.panic = Some(simcore::panic_loc::take().unwrap_or_default());
                out.error = Some(ProgramError::Custom(0xdead_dead));
                return Err(());
            }
        };
        if let Err(e) = res {
            out.error = Some(e);
            return Err(());
        }
        // Runtime rules (top-level granularity).
        let after: Vec<Acc> = images.iter().map(read_back).collect();
        let mut sum_before: u128 = 0;
        let mut sum_after: u128 = 0;
        let rent = Rent::default();
        for (i, (b, a)) in before.iter().zip(after.iter()).enumerate() {
            sum_before += b.lamports as u128;
            sum_after += a.lamports as u128;
            let (_, writable) = flags[i];
            if !writable && b != a {
                out.runtime_rule = Some(format!("readonly_modified:{}:lamports {}->{} len {}->{}", images[i].key, b.lamports, a.lamports, b.data.len(), a.data.len()));
                return Err(());
            }
            if b.executable && b != a {
                out.runtime_rule = Some("executable_modified".into());
                return Err(());
            }
            if a.lamports > 0 && (a.data.len() != b.data.len() || b.lamports == 0 || a.lamports < b.lamports) {
                // new, resized or debited accounts must end rent exempt (or keep their previous
                // rent-paying state, which cannot happen here because everything starts exempt)
                if !rent.is_exempt(a.lamports, a.data.len()) && rent.is_exempt(b.lamports, b.data.len()) {
                    out.runtime_rule = Some("not_rent_exempt".into());
                    return Err(());
                }
            }
        }
        if sum_before != sum_after {
            out.runtime_rule = Some("lamports_not_conserved".into());
            return Err(());
        }
        for ((img, a), (_, writable)) in images.iter().zip(after.into_iter()).zip(flags.iter()) {
            if !*writable {
                continue;
            }
            let old = self.accounts.get(&img.key).cloned();
            undo.push((img.key, old));
            if a.lamports == 0 {
                self.accounts.remove(&img.key);
            } else {
                self.accounts.insert(img.key, a);
            }
        }
        Ok(())
    }

    /// Execute a transaction atomically.
    pub fn process_tx(&mut self, ixs: &[Instruction], opts: &TxOpts) -> TxOutcome {
        install_stubs();
        self.tx_count += 1;
        CTX.with(|c| {
            let mut c = c.borrow_mut();
            *c = ExecCtx::default();
            c.clock = self.clock.clone();
            c.last_restart_slot = self.last_restart_slot;
            c.fail_cpi_at = opts.fail_cpi_at;
        });
        let mut out = TxOutcome::default();
        let mut undo: Vec<(Pubkey, Option<Acc>)> = Vec::new();
        let mut ok = true;
        let mut msg_signers: Vec<Pubkey> = Vec::new();
        let mut msg_writable: Vec<Pubkey> = Vec::new();
        for ix in ixs {
            for m in &ix.accounts {
                if m.is_signer && !msg_signers.contains(&m.pubkey) {
                    msg_signers.push(m.pubkey);
                }
                if m.is_writable && !msg_writable.contains(&m.pubkey) {
                    msg_writable.push(m.pubkey);
                }
            }
        }
        // Fee payer: explicit, or the first signer of the message.
        let payer = opts.payer.or_else(|| msg_signers.first().copied());
        if let Some(p) = payer {
            if !msg_writable.contains(&p) {
                msg_writable.push(p);
            }
            if !msg_signers.contains(&p) {
                msg_signers.push(p);
            }
        }
        for (i, ix) in ixs.iter().enumerate() {
            if self.process_ix(ix, &msg_signers, &msg_writable, &mut undo, &mut out).is_err() {
                out.failed_ix = Some(i);
                ok = false;
                break;
            }
        }
        if !ok {
            for (k, old) in undo.into_iter().rev() {
                match old {
                    Some(a) => {
                        self.accounts.insert(k, a);
                    }
                    None => {
                        self.accounts.remove(&k);
                    }
                }
            }
        }
        out.ok = ok;
        CTX.with(|c| {
            let mut c = c.borrow_mut();
            out.cpis = std::mem::take(&mut c.cpis);
            out.log_data = std::mem::take(&mut c.log_data);
            out.return_data = c.return_data.take();
        });
        out
    }

    pub fn process(&mut self, ix: Instruction) -> TxOutcome {
        self.process_tx(&[ix], &TxOpts::default())
    }
}

/// Redirect fd 1 to /dev/null (programs' `msg!` prints to stdout on the host) and return a writer
/// for the original stdout.
pub fn silence_stdout() -> std::fs::File {
    use std::os::fd::FromRawFd;
    unsafe {
        let saved = libc::dup(1);
        let devnull = libc::open(b"/dev/null\0".as_ptr() as *const libc::c_char, libc::O_WRONLY);
        libc::dup2(devnull, 1);
        libc::close(devnull);
        std::fs::File::from_raw_fd(saved)
    }
}
