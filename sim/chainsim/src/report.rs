//! Oracle provider: builds Chainlink Data Streams full reports (own ABI encoder, independent of the decoder
//! under test), wraps and snappy-compresses them.

use num_bigint::{BigInt, Sign};
use serde::{Deserialize, Serialize};

/// Everything is concrete so that a report is part of a plan.
#[derive(Clone, Debug, Serialize, Deserialize, PartialEq, Eq)]
pub struct ReportSpec {
    pub schema: u16,
    pub feed_id: [u8; 32],
    pub valid_from: u32,
    pub observations_ts: u32,
    pub expires_at: u32,
    /// 18-decimals fixed point values; signed to be able to emit negative prices.
    pub price: i128,
    pub bid: i128,
    pub ask: i128,
    /// v8: 0 unknown, 1 closed, 2 open; v11: 0 unknown,1 pre,2 regular,3 post,4 overnight,5 closed.
    pub market_status: u32,
    /// v8 / v11 last update timestamp in nanoseconds.
    pub last_update_ns: u64,
}

fn word_u(v: u128) -> [u8; 32] {
    let mut w = [0u8; 32];
    w[16..].copy_from_slice(&v.to_be_bytes());
    w
}

fn word_i(v: i128) -> [u8; 32] {
    let fill = if v < 0 { 0xff } else { 0 };
    let mut w = [fill; 32];
    w[16..].copy_from_slice(&v.to_be_bytes());
    w
}

pub fn word_big(v: &BigInt) -> [u8; 32] {
    // two's complement, 256 bits
    let (sign, mag) = v.to_bytes_be();
    let mut w = [0u8; 32];
    let n = mag.len().min(32);
    w[32 - n..].copy_from_slice(&mag[mag.len() - n..]);
    if sign == Sign::Minus {
        // negate
        for b in w.iter_mut() {
            *b = !*b;
        }
        for i in (0..32).rev() {
            let (x, c) = w[i].overflowing_add(1);
            w[i] = x;
            if !c {
                break;
            }
        }
    }
    w
}

impl ReportSpec {
    /// The ABI-encoded report blob.
    pub fn blob(&self) -> Vec<u8> {
        let mut b = Vec::with_capacity(32 * 14);
        b.extend_from_slice(&self.feed_id);
        b.extend_from_slice(&word_u(self.valid_from as u128));
        b.extend_from_slice(&word_u(self.observations_ts as u128));
        b.extend_from_slice(&word_u(0)); // native fee
        b.extend_from_slice(&word_u(0)); // link fee
        b.extend_from_slice(&word_u(self.expires_at as u128));
        match self.schema {
            2 | 7 => {
                b.extend_from_slice(&word_i(self.price));
            }
            3 => {
                b.extend_from_slice(&word_i(self.price));
                b.extend_from_slice(&word_i(self.bid));
                b.extend_from_slice(&word_i(self.ask));
            }
            8 => {
                b.extend_from_slice(&word_u(self.last_update_ns as u128));
                b.extend_from_slice(&word_i(self.price));
                b.extend_from_slice(&word_u(self.market_status as u128));
            }
            11 => {
                b.extend_from_slice(&word_i(self.price));
                b.extend_from_slice(&word_u(self.last_update_ns as u128));
                b.extend_from_slice(&word_i(self.bid));
                b.extend_from_slice(&word_i(0)); // bid volume
                b.extend_from_slice(&word_i(self.ask));
                b.extend_from_slice(&word_i(0)); // ask volume
                b.extend_from_slice(&word_i(self.price)); // last traded price
                b.extend_from_slice(&word_u(self.market_status as u128));
            }
            _ => {
                b.extend_from_slice(&word_i(self.price));
            }
        }
        b
    }

    /// Uncompressed full report: `[ctx×3][offset=128][len][blob]` (ABI `(bytes32[3], bytes)`).
    pub fn full_report(&self) -> Vec<u8> {
        full_report_of(&self.blob())
    }

    pub fn compressed(&self) -> Vec<u8> {
        compress(&self.full_report())
    }

    /// Effective (bid, mid, ask) as the decoder is documented to see them.
    pub fn effective_prices(&self) -> (i128, i128, i128) {
        match self.schema {
            3 | 11 => (self.bid, self.price, self.ask),
            _ => (self.price, self.price, self.price),
        }
    }

    pub fn has_last_update(&self) -> bool {
        matches!(self.schema, 8 | 11)
    }
}

pub fn full_report_of(blob: &[u8]) -> Vec<u8> {
    let mut p = vec![0u8; 96];
    p[0] = 7;
    p.extend_from_slice(&word_u(128));
    p.extend_from_slice(&word_u(blob.len() as u128));
    p.extend_from_slice(blob);
    // ABI pads `bytes` to a multiple of 32.
    while p.len() % 32 != 0 {
        p.push(0);
    }
    p
}

pub fn compress(data: &[u8]) -> Vec<u8> {
    gmsol_chainlink_datastreams::utils::Compressor::compress(data).expect("snappy")
}
