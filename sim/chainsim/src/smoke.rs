//! Development smoke test: a complete exchange lifecycle on the in-process cluster.
use crate::deploy::*;
use crate::ex::*;
use crate::report::ReportSpec;
use crate::rt::*;

pub fn price_report(d: &Dep, token: usize, ts: i64, price_e18: i128, spread_bps: i128) -> ReportSpec {
    let t = &d.tokens[token];
    let delta = price_e18 * spread_bps / 10_000;
    ReportSpec {
        schema: t.schema,
        feed_id: t.feed_id,
        valid_from: ts as u32,
        observations_ts: ts as u32,
        expires_at: (ts + 3600) as u32,
        price: price_e18,
        bid: price_e18 - delta,
        ask: price_e18 + delta,
        market_status: 2,
        last_update_ns: (ts as u64) * 1_000_000_000,
    }
}

fn show(label: &str, out: &TxOutcome) -> bool {
    eprintln!("== {label}: {} {:?} {:?}", out.class(), out.panic, out.runtime_rule);
    out.ok
}

pub fn run() {
    let mut w = World::new(1_700_000_000, 1000);
    let mut opts = DeployOpts::default();
    opts.tokens.push(TokenSpec { name: "BTC", decimals: 8, precision: 2, synthetic: true, schema: 3, heartbeat: 120 });
    opts.markets = vec![(0, 0, 1), (2, 0, 1), (0, 0, 0)];
    let t0 = std::time::Instant::now();
    let d = deploy_full(&mut w, &opts);
    eprintln!("deployed in {:?}, {} accounts, {} txs", t0.elapsed(), w.accounts.len(), w.tx_count);
    let e18 = 10i128.pow(18);
    let now = w.clock.unix_timestamp;
    for (i, p) in [(0usize, 150 * e18), (1, e18), (2, 60_000 * e18)] {
        let r = price_report(&d, i, now, p, 2);
        show("update feed", &w.process(update_feed_ix(&d, i, &r, false)));
    }
    let user = d.users[0];
    let mut nonce = [0u8; 32];
    // deposit
    nonce[0] = 1;
    let (ixs, dep) = create_deposit_tx(&d, &DepositArgs {
        owner: user, market: 0, nonce, long_amount: 500_000_000_000, short_amount: 75_000_000_000,
        min_market_token: 0, execution_lamports: 5_000_000, initial_long_token: None, initial_short_token: None,
        long_path: vec![], short_path: vec![],
    });
    show("create_deposit", &w.process_tx(&ixs, &TxOpts::default()));
    let ix = execute_deposit_ix(&w, &d, &dep, true, 5000).unwrap();
    let out = w.process(ix);
    show("execute_deposit", &out);
    eprintln!("   events: {}", out.cpi_events(&gmsol_store::ID).len());
    let ix = close_deposit_ix(&w, &d, &dep, &user).unwrap();
    show("close_deposit", &w.process(ix));
    let mt = d.markets[0].market_token;
    eprintln!("   user market tokens = {}", token_balance(&w, &ata(&user, &mt)));

    // increase order
    nonce[0] = 2;
    let (ixs, order, pos) = create_order_tx(&d, &OrderArgs {
        owner: user, market: 0, nonce, kind: OrderKind::MarketIncrease, is_long: true, is_collateral_long: true,
        collateral_delta: 10_000_000_000, size_delta: 5_000 * 10u128.pow(20), execution_lamports: 5_000_000,
        min_output: None, trigger_price: None, acceptable_price: None, valid_from_ts: None,
        initial_collateral_token: None, final_output_token: None, swap_path: vec![], swap_type: None,
    });
    show("create_order inc", &w.process_tx(&ixs, &TxOpts::default()));
    let ixs = execute_order_tx(&w, &d, &order, true, 5000, 0).unwrap();
    let out = w.process_tx(&ixs, &TxOpts::default());
    show("execute_order inc", &out);
    if let Some(ix) = close_order_ix(&w, &d, &order, &user) { show("close_order", &w.process(ix)); }
    let p: Option<gmsol_store::states::Position> = read_pod(&w, &pos.unwrap());
    eprintln!("   position size = {:?}", p.map(|p| p.state.size_in_usd));

    // decrease order
    nonce[0] = 3;
    let (ixs, order, _) = create_order_tx(&d, &OrderArgs {
        owner: user, market: 0, nonce, kind: OrderKind::MarketDecrease, is_long: true, is_collateral_long: true,
        collateral_delta: 0, size_delta: 2_000 * 10u128.pow(20), execution_lamports: 5_000_000,
        min_output: None, trigger_price: None, acceptable_price: None, valid_from_ts: None,
        initial_collateral_token: None, final_output_token: None, swap_path: vec![], swap_type: None,
    });
    show("create_order dec", &w.process_tx(&ixs, &TxOpts::default()));
    let ixs = execute_order_tx(&w, &d, &order, true, 5000, 0).unwrap();
    show("execute_order dec", &w.process_tx(&ixs, &TxOpts::default()));
    if let Some(ix) = close_order_ix(&w, &d, &order, &user) { show("close_order", &w.process(ix)); }

    // swap order
    nonce[0] = 4;
    let (ixs, order, _) = create_order_tx(&d, &OrderArgs {
        owner: user, market: 0, nonce, kind: OrderKind::MarketSwap, is_long: true, is_collateral_long: true,
        collateral_delta: 1_000_000_000, size_delta: 0, execution_lamports: 5_000_000,
        min_output: Some(0), trigger_price: None, acceptable_price: None, valid_from_ts: None,
        initial_collateral_token: Some(0), final_output_token: Some(1), swap_path: vec![0], swap_type: None,
    });
    show("create_order swap", &w.process_tx(&ixs, &TxOpts::default()));
    let ixs = execute_order_tx(&w, &d, &order, true, 5000, 0).unwrap();
    show("execute_order swap", &w.process_tx(&ixs, &TxOpts::default()));
    if let Some(ix) = close_order_ix(&w, &d, &order, &user) { show("close_order", &w.process(ix)); }

    // withdrawal
    nonce[0] = 5;
    let bal = token_balance(&w, &ata(&user, &mt));
    let (ixs, wd) = create_withdrawal_tx(&d, &WithdrawalArgs {
        owner: user, market: 0, nonce, market_token_amount: bal / 3, min_long: 0, min_short: 0, execution_lamports: 5_000_000,
        final_long_token: None, final_short_token: None, long_path: vec![], short_path: vec![],
    });
    show("create_withdrawal", &w.process_tx(&ixs, &TxOpts::default()));
    let ix = execute_withdrawal_ix(&w, &d, &wd, true, 5000).unwrap();
    show("execute_withdrawal", &w.process(ix));
    let ix = close_withdrawal_ix(&w, &d, &wd, &user).unwrap();
    show("close_withdrawal", &w.process(ix));

    // shift
    nonce[0] = 6;
    let (ixs, sh) = create_shift_tx(&d, &ShiftArgs { owner: user, from_market: 0, to_market: 1, nonce, amount: bal / 10, min_to: 0, execution_lamports: 5_000_000 });
    show("create_shift", &w.process_tx(&ixs, &TxOpts::default()));
    let ix = execute_shift_ix(&w, &d, &sh, true, 5000).unwrap();
    show("execute_shift", &w.process(ix));
    let ix = close_shift_ix(&w, &d, &sh, &user).unwrap();
    show("close_shift", &w.process(ix));

    show("update_fees_state", &w.process(update_fees_state_ix(&d, &d.markets[0])));
    // liquidation attempt of a healthy position (must fail)
    nonce[0] = 7;
    if let Some((ixs, _)) = position_cut_tx(&w, &d, &pos.unwrap(), nonce, None, 5000, 0) {
        show("liquidate healthy", &w.process_tx(&ixs, &TxOpts::default()));
    }
    let t1 = std::time::Instant::now();
    let w2 = w.clone();
    eprintln!("world clone {:?} ({} accounts, {} bytes)", t1.elapsed(), w2.accounts.len(), w2.accounts.values().map(|a| a.data.len()).sum::<usize>());
}
